//! Executor: replays protocol commands on the real `indextree` crate and
//! produces one observation line per command (see /verif/PROTOCOL.md).

use indextree::{Arena, NodeEdge, NodeId};
use std::cell::{Cell, RefCell};
use std::collections::HashMap;
use std::fmt::{self, Write as _};
use std::num::NonZeroUsize;
use std::panic::{catch_unwind, AssertUnwindSafe};

thread_local! {
    /// (tag, v) of every dropped payload whose tag is not 0.
    pub static DROP_LOG: RefCell<Vec<(u32, u64)>> = RefCell::new(Vec::new());
    /// Tag given to payloads produced by `Clone` / `Deserialize`.
    pub static CLONE_TAG: Cell<u32> = Cell::new(0);
    /// rend[(v, mode)] = chunks.
    pub static REND: RefCell<HashMap<(u64, u8), Vec<String>>> = RefCell::new(HashMap::new());
    static NEXT_TAG: Cell<u32> = Cell::new(0);
    static FMT_BUDGET: Cell<u64> = Cell::new(u64::MAX);
}

/// Panic payload used by `Pay`'s formatter when the per-`qp` budget is exhausted.
struct Diverge;

/// Payload: a `u64` token with identity. Tag 0 = scratch value (drops not logged).
pub struct Pay {
    pub v: u64,
    pub tag: u32,
}

impl PartialEq for Pay {
    fn eq(&self, o: &Pay) -> bool {
        self.v == o.v
    }
}
impl Eq for Pay {}

impl Drop for Pay {
    fn drop(&mut self) {
        if self.tag != 0 {
            let e = (self.tag, self.v);
            let _ = DROP_LOG.try_with(|l| {
                if let Ok(mut l) = l.try_borrow_mut() {
                    l.push(e)
                }
            });
        }
    }
}

impl Clone for Pay {
    fn clone(&self) -> Pay {
        Pay { v: self.v, tag: CLONE_TAG.with(|c| c.get()) }
    }
}

fn render(v: u64, mode: u8, f: &mut fmt::Formatter<'_>) -> fmt::Result {
    let left = FMT_BUDGET.with(|b| b.get());
    if left == 0 {
        std::panic::panic_any(Diverge);
    }
    FMT_BUDGET.with(|b| b.set(left - 1));
    let chunks = REND.with(|r| r.borrow().get(&(v, mode)).cloned());
    match chunks {
        Some(cs) => {
            for c in &cs {
                // a chunk marked 'c' in the ops file is one character handed over with write_char
                match c.strip_prefix('\u{1}') {
                    Some(ch) => {
                        for x in ch.chars() {
                            fmt::Write::write_char(f, x)?;
                        }
                    }
                    None => f.write_str(c)?,
                }
            }
            Ok(())
        }
        None => f.write_str(&v.to_string()),
    }
}

impl fmt::Display for Pay {
    fn fmt(&self, f: &mut fmt::Formatter<'_>) -> fmt::Result {
        render(self.v, if f.alternate() { 1 } else { 0 }, f)
    }
}
impl fmt::Debug for Pay {
    fn fmt(&self, f: &mut fmt::Formatter<'_>) -> fmt::Result {
        render(self.v, if f.alternate() { 3 } else { 2 }, f)
    }
}

#[cfg(feature = "deser")]
impl serde::Serialize for Pay {
    fn serialize<S: serde::Serializer>(&self, s: S) -> Result<S::Ok, S::Error> {
        s.serialize_u64(self.v)
    }
}
#[cfg(feature = "deser")]
impl<'de> serde::Deserialize<'de> for Pay {
    fn deserialize<D: serde::Deserializer<'de>>(d: D) -> Result<Pay, D::Error> {
        let v = <u64 as serde::Deserialize>::deserialize(d)?;
        Ok(Pay { v, tag: CLONE_TAG.with(|c| c.get()) })
    }
}

/// Runs `f` under `catch_unwind`. `Err(true)` = the formatter budget ran out, `Err(false)` = panic.
pub fn guard<R>(f: impl FnOnce() -> R) -> Result<R, bool> {
    catch_unwind(AssertUnwindSafe(f)).map_err(|e| e.is::<Diverge>())
}

pub fn fresh_tag() -> u32 {
    NEXT_TAG.with(|c| {
        let t = c.get() + 1;
        c.set(t);
        t
    })
}
fn purge(tag: u32) {
    DROP_LOG.with(|l| l.borrow_mut().retain(|e| e.0 != tag));
}
#[cfg_attr(not(feature = "deser"), allow(dead_code))]
fn retag(from: u32, to: u32) {
    DROP_LOG.with(|l| l.borrow_mut().iter_mut().for_each(|e| if e.0 == from { e.0 = to }));
}
fn log_len() -> usize {
    DROP_LOG.with(|l| l.borrow().len())
}
/// A payload handed to a call that panicked before storing it is dropped by the unwinding, not by
/// the arena: it belongs to no arena's drop log. Removes that entry (logged since `mark`).
fn forget_arg(mark: usize, tag: u32, v: u64) {
    DROP_LOG.with(|l| {
        let mut l = l.borrow_mut();
        if let Some(p) = l.iter().skip(mark).position(|e| *e == (tag, v)) {
            l.remove(mark + p);
        }
    })
}
fn take_log(tag: u32) -> Vec<u64> {
    DROP_LOG.with(|l| {
        let mut l = l.borrow_mut();
        let out = l.iter().filter(|e| e.0 == tag).map(|e| e.1).collect();
        l.retain(|e| e.0 != tag);
        out
    })
}

/// One arena value with its handle table and drop-log tag.
pub struct Side {
    pub arena: Arena<Pay>,
    pub issued: Vec<NodeId>,
    pub tag: u32,
}
impl Side {
    fn new() -> Side {
        Side { arena: Arena::new(), issued: Vec::new(), tag: fresh_tag() }
    }
    fn discard(self) {
        let t = self.tag;
        drop(self);
        purge(t);
    }
}

pub struct Exec {
    pub cur: Side,
    pub alt: Option<Side>,
}

enum E {
    BadCmd,
    BadHandle,
}

pub fn fid(id: NodeId) -> String {
    format!("{}:{}", usize::from(id), id.verif_stamp())
}
fn oid(o: Option<NodeId>) -> String {
    o.map_or_else(|| "-".to_string(), fid)
}
fn optu(o: Option<usize>) -> String {
    o.map_or_else(|| "-".to_string(), |x| x.to_string())
}
fn ix1(id: NodeId) -> String {
    usize::from(id).to_string()
}
fn edge(e: NodeEdge) -> String {
    match e {
        NodeEdge::Start(i) => format!("S{}", usize::from(i)),
        NodeEdge::End(i) => format!("E{}", usize::from(i)),
    }
}
fn hex(b: &[u8]) -> String {
    let mut s = String::with_capacity(b.len() * 2);
    for x in b {
        let _ = write!(s, "{:02x}", x);
    }
    s
}
fn unhex(s: &str) -> Option<Vec<u8>> {
    if s.len() % 2 != 0 || !s.is_ascii() {
        return None;
    }
    (0..s.len() / 2).map(|i| u8::from_str_radix(&s[2 * i..2 * i + 2], 16).ok()).collect()
}
fn num<T: std::str::FromStr>(t: &[&str], i: usize) -> Result<T, E> {
    t.get(i).and_then(|s| s.parse().ok()).ok_or(E::BadCmd)
}
#[cfg_attr(not(feature = "deser"), allow(dead_code))]
fn nospace(s: &str) -> String {
    s.chars().map(|c| if c.is_whitespace() { '_' } else { c }).collect()
}

/// Pulls `mk()` at most `n` times; `diverge` if every pull returned `Some`.
fn pull<I: Iterator>(n: usize, mk: impl FnOnce() -> I, show: impl Fn(I::Item) -> String) -> String {
    let r = guard(|| {
        let mut it = mk();
        let mut out = Vec::new();
        for _ in 0..n {
            match it.next() {
                Some(x) => out.push(show(x)),
                None => return Some(out),
            }
        }
        None
    });
    match r {
        Ok(Some(v)) => v.join(","),
        Ok(None) => "diverge".into(),
        Err(_) => "panic".into(),
    }
}

/// Iterates `step` from `from` until `until` (inclusive), at most `n` steps.
fn walk(n: usize, from: NodeEdge, until: NodeEdge, step: impl Fn(NodeEdge) -> Option<NodeEdge>) -> String {
    let r = guard(|| {
        let mut out = vec![edge(from)];
        let mut c = from;
        for _ in 0..n {
            if c == until {
                return Some(out);
            }
            match step(c) {
                Some(e) => {
                    out.push(edge(e));
                    c = e;
                }
                None => return Some(out),
            }
        }
        if c == until {
            Some(out)
        } else {
            None
        }
    });
    match r {
        Ok(Some(v)) => v.join(","),
        Ok(None) => "diverge".into(),
        Err(_) => "panic".into(),
    }
}

/// One raw step (it may leave the subtree of the node it starts from).
fn step1(f: impl FnOnce() -> Option<NodeEdge>) -> String {
    match guard(f) {
        Ok(Some(e)) => edge(e),
        Ok(None) => "-".into(),
        Err(_) => "panic".into(),
    }
}

fn pattern<I: DoubleEndedIterator<Item = NodeId>>(pat: &str, mk: impl FnOnce() -> I) -> String {
    let r = guard(|| {
        let mut it = mk();
        pat.chars()
            .map(|c| if c == 'f' { it.next() } else { it.next_back() })
            .map(|o| o.map_or_else(|| "-".to_string(), ix1))
            .collect::<Vec<_>>()
    });
    match r {
        Ok(v) => format!("d {}", v.join(",")),
        Err(_) => "d panic".into(),
    }
}

/// Every way of consuming an iterator must agree with repeated `next()` (the documented sequence): a clone
/// taken mid-way, `fold`, `for_each`, `count`, `last` (internal iteration may be overridden separately).
fn chk_iter<I>(name: &str, n: usize, mk: impl Fn() -> I, bad: &mut Vec<String>)
where
    I: Iterator + Clone,
    I::Item: PartialEq + Clone,
{
    let full: Vec<I::Item> = mk().take(n).collect();
    if full.len() >= n {
        return; // does not end: reported by qi
    }
    for j in 0..=full.len().min(3) {
        let mut it = mk();
        for _ in 0..j {
            it.next();
        }
        let rest = &full[j..];
        let via_clone: Vec<I::Item> = it.clone().take(n).collect();
        if via_clone != rest {
            bad.push(format!("{}:clone-after-{}-pulls", name, j));
        }
        let mut via_fold = Vec::new();
        it.clone().fold((), |_, v| via_fold.push(v));
        if via_fold != rest {
            bad.push(format!("{}:fold-after-{}-pulls", name, j));
        }
        if it.clone().count() != rest.len() {
            bad.push(format!("{}:count-after-{}-pulls", name, j));
        }
        if it.clone().last() != rest.last().cloned() {
            bad.push(format!("{}:last-after-{}-pulls", name, j));
        }
        let mut via_for_each = Vec::new();
        it.for_each(|v| via_for_each.push(v));
        if via_for_each != rest {
            bad.push(format!("{}:for_each-after-{}-pulls", name, j));
        }
    }
}

/// The same for the double-ended iterators, after `j` front pulls and `k` back pulls, plus `rev()` / `rfold`.
fn chk_de<I>(name: &str, n: usize, mk: impl Fn() -> I, bad: &mut Vec<String>)
where
    I: DoubleEndedIterator + Clone,
    I::Item: PartialEq + Clone,
{
    let full: Vec<I::Item> = mk().take(n).collect();
    if full.len() >= n {
        return;
    }
    for j in 0..=full.len().min(2) {
        for k in 0..=(full.len() - j).min(2) {
            let mut it = mk();
            for _ in 0..j {
                it.next();
            }
            for _ in 0..k {
                it.next_back();
            }
            let rest = &full[j..full.len() - k];
            let tag = format!("{}f{}b", j, k);
            let via_clone: Vec<I::Item> = it.clone().take(n).collect();
            if via_clone != rest {
                bad.push(format!("{}:clone-after-{}", name, tag));
            }
            let mut via_fold = Vec::new();
            it.clone().fold((), |_, v| via_fold.push(v));
            if via_fold != rest {
                bad.push(format!("{}:fold-after-{}", name, tag));
            }
            let mut via_rfold = Vec::new();
            it.clone().rfold((), |_, v| via_rfold.push(v));
            via_rfold.reverse();
            if via_rfold != rest {
                bad.push(format!("{}:rfold-after-{}", name, tag));
            }
            let mut via_rev: Vec<I::Item> = it.clone().rev().take(n).collect();
            via_rev.reverse();
            if via_rev != rest {
                bad.push(format!("{}:rev-after-{}", name, tag));
            }
            if it.clone().count() != rest.len() {
                bad.push(format!("{}:count-after-{}", name, tag));
            }
            if it.clone().last() != rest.last().cloned() {
                bad.push(format!("{}:last-after-{}", name, tag));
            }
            let mut via_for_each = Vec::new();
            it.for_each(|v| via_for_each.push(v));
            if via_for_each != rest {
                bad.push(format!("{}:for_each-after-{}", name, tag));
            }
        }
    }
}

impl Exec {
    pub fn new() -> Exec {
        Exec { cur: Side::new(), alt: None }
    }

    /// Executes one ops-file line. `None` for comments and blank lines.
    pub fn step(&mut self, line: &str) -> Option<String> {
        let line = line.trim_end_matches(|c| c == '\r' || c == '\n');
        if line.starts_with('#') || line.trim().is_empty() {
            return None;
        }
        let t: Vec<&str> = line.split(' ').collect();
        Some(match self.dispatch(&t) {
            Ok(s) => s,
            Err(E::BadHandle) => "r badhandle".into(),
            Err(E::BadCmd) => "r badcmd".into(),
        })
    }

    fn h(&self, t: &[&str], i: usize) -> Result<NodeId, E> {
        // `g<k>`: not an id the harness kept, but the one the arena itself reports for the node stored at
        // position k (1-based) right now: `get_node_id(&as_slice()[k-1])` (also for removed slots)
        if let Some(k) = t.get(i).and_then(|x| x.strip_prefix('g')) {
            let k: usize = k.parse().map_err(|_| E::BadCmd)?;
            let ar = &self.cur.arena;
            let n = k.checked_sub(1).and_then(|j| ar.as_slice().get(j)).ok_or(E::BadHandle)?;
            return ar.get_node_id(n).ok_or(E::BadHandle);
        }
        let k: usize = num(t, i)?;
        self.cur.issued.get(k).copied().ok_or(E::BadHandle)
    }

    fn reset(&mut self) {
        if let Some(a) = self.alt.take() {
            a.discard();
        }
        std::mem::replace(&mut self.cur, Side::new()).discard();
    }

    fn dispatch(&mut self, t: &[&str]) -> Result<String, E> {
        let tag = self.cur.tag;
        Ok(match t[0] {
            "hist" => {
                let n: u64 = num(t, 1)?;
                self.reset();
                REND.with(|r| r.borrow_mut().clear());
                format!("h {}", n)
            }
            "new" => {
                let v: u64 = num(t, 1)?;
                let ar = &mut self.cur.arena;
                let mark = log_len();
                match guard(|| ar.new_node(Pay { v, tag })) {
                    Ok(id) => {
                        self.cur.issued.push(id);
                        format!("r id {}", fid(id))
                    }
                    Err(_) => {
                        forget_arg(mark, tag, v);
                        "r panic".into()
                    }
                }
            }
            "appv" => {
                let p = self.h(t, 1)?;
                let v: u64 = num(t, 2)?;
                let ar = &mut self.cur.arena;
                let mark = log_len();
                match guard(|| p.append_value(Pay { v, tag }, ar)) {
                    Ok(id) => {
                        self.cur.issued.push(id);
                        format!("r id {}", fid(id))
                    }
                    Err(_) => {
                        forget_arg(mark, tag, v);
                        "r panic".into()
                    }
                }
            }
            op @ ("app" | "pre" | "ia" | "ib" | "capp" | "cpre" | "cia" | "cib") => {
                let a = self.h(t, 1)?;
                let b = self.h(t, 2)?;
                let ar = &mut self.cur.arena;
                let r = guard(|| match op {
                    "app" => Ok(a.append(b, ar)),
                    "pre" => Ok(a.prepend(b, ar)),
                    "ia" => Ok(a.insert_after(b, ar)),
                    "ib" => Ok(a.insert_before(b, ar)),
                    "capp" => a.checked_append(b, ar),
                    "cpre" => a.checked_prepend(b, ar),
                    "cia" => a.checked_insert_after(b, ar),
                    _ => a.checked_insert_before(b, ar),
                });
                match r {
                    Ok(Ok(())) => "r ok".into(),
                    Ok(Err(e)) => format!("r err {:?}", e),
                    Err(_) => "r panic".into(),
                }
            }
            op @ ("det" | "rem" | "rst") => {
                let a = self.h(t, 1)?;
                let ar = &mut self.cur.arena;
                let r = guard(|| match op {
                    "det" => a.detach(ar),
                    "rem" => a.remove(ar),
                    _ => a.remove_subtree(ar),
                });
                if r.is_ok() { "r ok".into() } else { "r panic".into() }
            }
            "wr" => {
                let a = self.h(t, 1)?;
                let v: u64 = num(t, 2)?;
                let ar = &mut self.cur.arena;
                let mark = log_len();
                // the three documented ways to write a payload, chosen by the value: IndexMut,
                // Arena::get_mut, Arena::iter_mut (all must address the same node and only that node)
                let r = guard(|| match v % 3 {
                    0 => *ar[a].get_mut() = Pay { v, tag },
                    1 => *ar.get_mut(a).unwrap().get_mut() = Pay { v, tag },
                    _ => {
                        let pos = usize::from(a) - 1;
                        *ar.iter_mut().nth(pos).unwrap().get_mut() = Pay { v, tag }
                    }
                });
                if r.is_ok() {
                    "r ok".into()
                } else {
                    forget_arg(mark, tag, v);
                    "r panic".into()
                }
            }
            "clear" => {
                let ar = &mut self.cur.arena;
                let r = guard(|| ar.clear());
                self.cur.issued.clear();
                if r.is_ok() { "r ok".into() } else { "r panic".into() }
            }
            "reserve" => {
                let k: usize = num(t, 1)?;
                let ar = &mut self.cur.arena;
                if guard(|| ar.reserve(k)).is_ok() { "r ok".into() } else { "r panic".into() }
            }
            "fork" => {
                let nt = fresh_tag();
                CLONE_TAG.with(|c| c.set(nt));
                match guard(|| self.cur.arena.clone()) {
                    Ok(arena) => {
                        if let Some(old) = self.alt.take() {
                            old.discard();
                        }
                        self.alt = Some(Side { arena, issued: self.cur.issued.clone(), tag: nt });
                        "r ok".into()
                    }
                    Err(_) => {
                        purge(nt);
                        "r panic".into()
                    }
                }
            }
            "forkfrom" => {
                // like `fork`, but when an `alt` value exists it is overwritten with
                // `Clone::clone_from` (which may reuse its allocation) instead of being replaced
                let nt = fresh_tag();
                CLONE_TAG.with(|c| c.set(nt));
                match self.alt.take() {
                    Some(mut old) => {
                        let ot = old.tag;
                        let cur = &self.cur.arena;
                        match guard(|| old.arena.clone_from(cur)) {
                            Ok(()) => {
                                purge(ot);
                                self.alt = Some(Side { arena: old.arena, issued: self.cur.issued.clone(), tag: nt });
                                "r ok".into()
                            }
                            Err(_) => {
                                purge(ot);
                                purge(nt);
                                "r panic".into()
                            }
                        }
                    }
                    None => match guard(|| self.cur.arena.clone()) {
                        Ok(arena) => {
                            self.alt = Some(Side { arena, issued: self.cur.issued.clone(), tag: nt });
                            "r ok".into()
                        }
                        Err(_) => {
                            purge(nt);
                            "r panic".into()
                        }
                    },
                }
            }
            "swap" => {
                if let Some(alt) = self.alt.as_mut() {
                    std::mem::swap(&mut self.cur, alt);
                }
                "r ok".into()
            }
            "serde" => self.serde_cmd(),
            "rend" => {
                let v: u64 = num(t, 1)?;
                let mode: u8 = num(t, 2)?;
                if mode > 3 || t.len() > 4 {
                    return Err(E::BadCmd);
                }
                let spec = t.get(3).copied().unwrap_or("");
                let chunks: Vec<String> = if spec == "-" {
                    Vec::new()
                } else {
                    let mut cs = Vec::new();
                    for c in spec.split(',') {
                        let (is_char, hexpart) = match c.strip_prefix('w') {
                            Some(h) => (true, h),
                            None => (false, c),
                        };
                        let b = unhex(hexpart).ok_or(E::BadCmd)?;
                        let txt = String::from_utf8(b).map_err(|_| E::BadCmd)?;
                        cs.push(if is_char { format!("\u{1}{}", txt) } else { txt });
                    }
                    cs
                };
                REND.with(|r| r.borrow_mut().insert((v, mode), chunks));
                "k".into()
            }
            "qa" => {
                let ar = &self.cur.arena;
                guard(|| {
                    let (ff, lf) = ar.verif_free_ends();
                    let mut s = format!("a {} {} {}", ar.count(), optu(ff), optu(lf));
                    for (i, n) in ar.as_slice().iter().enumerate() {
                        let (st, nf) = ar.verif_slot(i);
                        let data = match nf {
                            None => format!("D{}", n.get().v),
                            Some(x) => format!("F{}", optu(x)),
                        };
                        let _ = write!(
                            s,
                            " | {} {} {} {} {} {} {}",
                            st,
                            data,
                            oid(n.parent()),
                            oid(n.previous_sibling()),
                            oid(n.next_sibling()),
                            oid(n.first_child()),
                            oid(n.last_child())
                        );
                    }
                    s
                })
                .unwrap_or_else(|_| "a panic".into())
            }
            "qeq" => match &self.alt {
                None => "e -".into(),
                Some(alt) => match guard(|| self.cur.arena == alt.arena) {
                    Ok(true) => "e 1".into(),
                    Ok(false) => "e 0".into(),
                    Err(_) => "e panic".into(),
                },
            },
            "qr" => {
                let ar = &self.cur.arena;
                let s: String = self
                    .cur
                    .issued
                    .iter()
                    .map(|&id| match guard(|| id.is_removed(ar)) {
                        Ok(false) => '0',
                        Ok(true) => '1',
                        Err(_) => 'p',
                    })
                    .collect();
                if s.is_empty() { "m".into() } else { format!("m {}", s) }
            }
            "ql" => {
                let ar = &self.cur.arena;
                let count = ar.count();
                let mut s = format!("l {} {}", count, ar.is_empty() as u8);
                for k in 1..=count + 2 {
                    let r = guard(|| ar.get_node_id_at(NonZeroUsize::new(k).unwrap()));
                    s.push(' ');
                    s.push_str(&r.map(oid).unwrap_or_else(|_| "p".into()));
                }
                s
            }
            "qav" => {
                // does p.append_value(v) leave the arena equal to new_node(v) followed by p.append(new)?
                // (evaluated on two clones; `cur` is not modified)
                let p = self.h(t, 1)?;
                let v: u64 = num(t, 2)?;
                CLONE_TAG.with(|c| c.set(0));
                let ar = &self.cur.arena;
                let r = guard(|| {
                    let mut c1 = ar.clone();
                    let mut c1r = ar.clone();
                    c1r.reserve(8); // same comparison on an arena with spare capacity
                    let mut c2 = ar.clone();
                    let x1 = p.append_value(Pay { v, tag: 0 }, &mut c1);
                    let x1r = p.append_value(Pay { v, tag: 0 }, &mut c1r);
                    let x2 = c2.new_node(Pay { v, tag: 0 });
                    p.append(x2, &mut c2);
                    x1 == x2 && c1 == c2 && x1r == x2 && c1r == c2
                });
                match r {
                    Ok(true) => "v 1".into(),
                    Ok(false) => "v 0".into(),
                    Err(_) => "v panic".into(),
                }
            }
            "qf" => {
                CLONE_TAG.with(|c| c.set(0));
                let ar = &self.cur.arena;
                let r = guard(|| {
                    let mut cl = ar.clone();
                    let c0 = cl.count();
                    let mut out = Vec::new();
                    for _ in 0..c0 + 1 {
                        let id = cl.new_node(Pay { v: 0, tag: 0 });
                        if cl.count() > c0 {
                            return Some(out);
                        }
                        out.push((usize::from(id) - 1).to_string());
                    }
                    None
                });
                match r {
                    Ok(Some(v)) if v.is_empty() => "f".into(),
                    Ok(Some(v)) => format!("f {}", v.join(" ")),
                    Ok(None) => "f diverge".into(),
                    Err(_) => "f panic".into(),
                }
            }
            "qi" => {
                let x = self.h(t, 1)?;
                let ar = &self.cur.arena;
                let n = 4 * ar.count() + 8;
                #[allow(deprecated)]
                let rch = pull(n, || x.reverse_children(ar), ix1);
                format!(
                    "i anc={} pred={} prec={} foll={} ch={} rch={} desc={} trav={} rtrav={} nt={} pt={} n1={} p1={}",
                    pull(n, || x.ancestors(ar), ix1),
                    pull(n, || x.predecessors(ar), ix1),
                    pull(n, || x.preceding_siblings(ar), ix1),
                    pull(n, || x.following_siblings(ar), ix1),
                    pull(n, || x.children(ar), ix1),
                    rch,
                    pull(n, || x.descendants(ar), ix1),
                    pull(n, || x.traverse(ar), edge),
                    pull(n, || x.reverse_traverse(ar), edge),
                    walk(n, NodeEdge::Start(x), NodeEdge::End(x), |e| e.next_traverse(ar)),
                    walk(n, NodeEdge::End(x), NodeEdge::Start(x), |e| e.prev_traverse(ar)),
                    step1(|| NodeEdge::End(x).next_traverse(ar)),
                    step1(|| NodeEdge::Start(x).prev_traverse(ar)),
                )
            }
            "qx" => {
                let x = self.h(t, 1)?;
                let ar = &self.cur.arena;
                let n = 4 * ar.count() + 8;
                let r = guard(|| {
                    let mut bad = Vec::new();
                    chk_iter("anc", n, || x.ancestors(ar), &mut bad);
                    chk_iter("pred", n, || x.predecessors(ar), &mut bad);
                    #[allow(deprecated)]
                    chk_iter("rch", n, || x.reverse_children(ar), &mut bad);
                    chk_iter("desc", n, || x.descendants(ar), &mut bad);
                    chk_iter("trav", n, || x.traverse(ar), &mut bad);
                    chk_iter("rtrav", n, || x.reverse_traverse(ar), &mut bad);
                    chk_de("ch", n, || x.children(ar), &mut bad);
                    chk_de("prec", n, || x.preceding_siblings(ar), &mut bad);
                    chk_de("foll", n, || x.following_siblings(ar), &mut bad);
                    bad
                });
                match r {
                    Ok(b) if b.is_empty() => "y ok".into(),
                    Ok(b) => format!("y bad {}", b.join(";")),
                    Err(_) => "y panic".into(),
                }
            }
            "qd" => {
                let x = self.h(t, 1)?;
                let which = *t.get(2).ok_or(E::BadCmd)?;
                let pat = *t.get(3).ok_or(E::BadCmd)?;
                if pat.is_empty() || !pat.chars().all(|c| c == 'f' || c == 'b') {
                    return Err(E::BadCmd);
                }
                let ar = &self.cur.arena;
                match which {
                    "ch" => pattern(pat, || x.children(ar)),
                    "prec" => pattern(pat, || x.preceding_siblings(ar)),
                    "foll" => pattern(pat, || x.following_siblings(ar)),
                    _ => return Err(E::BadCmd),
                }
            }
            "qp" => {
                let x = self.h(t, 1)?;
                let mode: u8 = num(t, 2)?;
                if mode > 3 {
                    return Err(E::BadCmd);
                }
                let ar = &self.cur.arena;
                FMT_BUDGET.with(|b| b.set(4 * ar.count() as u64 + 8));
                // first a print into a sink that fails after a few bytes (a failed print must leave nothing behind
                // that a later print on this thread could see), then the real one
                {
                    struct Limited(usize);
                    impl fmt::Write for Limited {
                        fn write_str(&mut self, s: &str) -> fmt::Result {
                            if s.len() > self.0 {
                                self.0 = 0;
                                Err(fmt::Error)
                            } else {
                                self.0 -= s.len();
                                Ok(())
                            }
                        }
                    }
                    let limit = (usize::from(x) * 7 + mode as usize * 3 + 5) % 41;
                    let _ = guard(|| {
                        let p = x.debug_pretty_print(ar);
                        let mut sink = Limited(limit);
                        let _ = match mode {
                            0 => fmt::write(&mut sink, format_args!("{}", p)),
                            1 => fmt::write(&mut sink, format_args!("{:#}", p)),
                            2 => fmt::write(&mut sink, format_args!("{:?}", p)),
                            _ => fmt::write(&mut sink, format_args!("{:#?}", p)),
                        };
                    });
                    FMT_BUDGET.with(|b| b.set(4 * ar.count() as u64 + 8));
                }
                let r = guard(|| {
                    let p = x.debug_pretty_print(ar);
                    match mode {
                        0 => format!("{}", p),
                        1 => format!("{:#}", p),
                        2 => format!("{:?}", p),
                        _ => format!("{:#?}", p),
                    }
                });
                FMT_BUDGET.with(|b| b.set(u64::MAX));
                match r {
                    Ok(s) if s.is_empty() => "p".into(),
                    Ok(s) => format!("p {}", hex(s.as_bytes())),
                    Err(true) => "p diverge".into(),
                    Err(false) => "p panic".into(),
                }
            }
            "drops" => {
                let mut s = String::from("x");
                for v in take_log(tag) {
                    let _ = write!(s, " {}", v);
                }
                s
            }
            "end" => {
                let cur = std::mem::replace(&mut self.cur, Side::new());
                drop(cur);
                let mut s = String::from("x");
                for v in take_log(tag) {
                    let _ = write!(s, " {}", v);
                }
                s.push_str(" ;");
                if let Some(alt) = self.alt.take() {
                    let at = alt.tag;
                    drop(alt);
                    for v in take_log(at) {
                        let _ = write!(s, " {}", v);
                    }
                }
                s
            }
            _ => return Err(E::BadCmd),
        })
    }

    #[cfg(not(feature = "deser"))]
    fn serde_cmd(&mut self) -> String {
        "s unsupported".into()
    }

    #[cfg(feature = "deser")]
    fn serde_cmd(&mut self) -> String {
        use crate::serde_tok;
        let toks = match guard(|| serde_tok::to_tokens(&self.cur.arena)) {
            Ok(Ok(t)) => t,
            Ok(Err(e)) => return format!("s SERFAIL {}", nospace(&e.0)),
            Err(_) => return "s SERFAIL panic".into(),
        };
        let line = format!("s {}", toks.join(" "));
        let old = self.cur.tag;
        let nt = fresh_tag();
        CLONE_TAG.with(|c| c.set(nt));
        match guard(|| serde_tok::from_tokens::<Arena<Pay>>(toks)) {
            Ok(Ok(arena)) => {
                // entries not yet reported by `drops` move to the new value; the old value's
                // destruction is not logged.
                retag(old, nt);
                drop(std::mem::replace(&mut self.cur.arena, arena));
                purge(old);
                self.cur.tag = nt;
                line
            }
            Ok(Err(e)) => {
                purge(nt);
                format!("{} DESERFAIL {}", line, nospace(&e.0))
            }
            Err(_) => {
                purge(nt);
                format!("{} DESERFAIL panic", line)
            }
        }
    }
}
