//! History generator. Commands are executed while they are generated (same executor as `run`),
//! so arguments can be chosen by looking at the real arena.

use crate::exec::{guard, Exec, Side};
use crate::Rng;
use indextree::NodeId;
use std::collections::hash_map::DefaultHasher;
use std::collections::{BTreeMap, HashSet};
use std::hash::{Hash, Hasher};
use std::io::{self, Write};

#[derive(Clone, Copy, PartialEq, Eq, Debug)]
pub enum Profile {
    Core,
    Alloc,
    Iters,
    Print,
    Serde,
    Value,
    Misuse,
    /// like `core`, but every history starts from a random tree of 18-60 nodes (deep and wide subtrees)
    Big,
}
impl Profile {
    pub fn parse(s: &str) -> Result<Profile, String> {
        Ok(match s {
            "core" => Profile::Core,
            "alloc" => Profile::Alloc,
            "iters" => Profile::Iters,
            "print" => Profile::Print,
            "serde" => Profile::Serde,
            "value" => Profile::Value,
            "misuse" => Profile::Misuse,
            "big" => Profile::Big,
            _ => return Err(format!("unknown profile {}", s)),
        })
    }
}

pub struct Cfg {
    pub seed: u64,
    pub hists: u64,
    pub len: usize,
    pub profile: Profile,
    pub max_nodes: usize,
    pub start: u64,
    /// Commands replayed verbatim at the start of every history (`--prefix`).
    pub prefix: Vec<String>,
}

/// Reads a one-history ops file for `--prefix`: comment and blank lines, a leading `hist N` and a
/// trailing `end` are dropped.
pub fn read_prefix(text: &str) -> Vec<String> {
    let mut v: Vec<String> = text
        .lines()
        .map(|l| l.trim_end_matches('\r').to_string())
        .filter(|l| !l.starts_with('#') && !l.trim().is_empty())
        .collect();
    if v.first().map_or(false, |l| l == "hist" || l.starts_with("hist ")) {
        v.remove(0);
    }
    if v.last().map_or(false, |l| l == "end") {
        v.pop();
    }
    v
}

/// Callbacks around every executed command (used by `selfcheck`).
pub trait Hooks {
    fn pre(&mut self, _ex: &mut Exec, _cmd: &str) {}
    fn post(&mut self, _ex: &mut Exec, _cmd: &str, _obs: &str) {}
    fn hist_end(&mut self, _ex: &mut Exec, _hist: u64) {}
}
pub struct NoHooks;
impl Hooks for NoHooks {}

pub const REL: [&str; 18] = [
    "self",
    "a_dead",
    "b_dead",
    "both_dead",
    "b_parent_of_a",
    "b_far_ancestor_of_a",
    "b_first_child_of_a",
    "b_last_child_of_a",
    "b_middle_child_of_a",
    "b_only_child_of_a",
    "b_deep_descendant_of_a",
    "b_prev_sibling_of_a",
    "b_next_sibling_of_a",
    "b_far_sibling_of_a",
    "b_root_of_other_tree",
    "b_in_toplevel_chain",
    "b_inner_of_other_tree",
    "other",
];
const NODE_CLASS: [&str; 9] =
    ["root", "single", "chain_member", "inner", "leaf", "first_child", "middle_child", "last_child", "only_child"];
const INSERTS: [&str; 8] = ["app", "pre", "ia", "ib", "capp", "cpre", "cia", "cib"];

#[derive(Clone, Copy, PartialEq, Eq)]
enum Cl {
    Live,
    Dead,
    Stale,
}

/// Snapshot of the links of an arena value, by slot index, plus handle classification.
/// Built from `as_slice()` and the verification hooks only; every walk is bounded.
pub struct View {
    pub n: usize,
    removed: Vec<bool>,
    par: Vec<Option<usize>>,
    prev: Vec<Option<usize>>,
    next: Vec<Option<usize>>,
    first: Vec<Option<usize>>,
    depth: Vec<usize>,
    root: Vec<usize>,
    head: Vec<usize>,
    slot: Vec<usize>,
    class: Vec<Cl>,
    pub live: Vec<usize>,
    pub dead: Vec<usize>,
    pub free_len: usize,
    /// The links form a proper forest over current ids (every library loop terminates).
    pub wf: bool,
}

impl View {
    pub fn build(side: &Side) -> View {
        let ar = &side.arena;
        let sl = ar.as_slice();
        let n = sl.len();
        let ix = |o: Option<NodeId>| o.map(|id| usize::from(id) - 1).filter(|&i| i < n);
        let removed: Vec<bool> = sl.iter().map(|x| x.is_removed()).collect();
        let par: Vec<_> = sl.iter().map(|x| ix(x.parent())).collect();
        let prev: Vec<_> = sl.iter().map(|x| ix(x.previous_sibling())).collect();
        let next: Vec<_> = sl.iter().map(|x| ix(x.next_sibling())).collect();
        let first: Vec<_> = sl.iter().map(|x| ix(x.first_child())).collect();
        let (mut depth, mut root, mut head) = (vec![0; n], vec![0; n], vec![0; n]);
        for i in 0..n {
            let (mut c, mut d) = (i, 0);
            while let Some(p) = par[c] {
                if d > n {
                    break;
                }
                d += 1;
                c = p;
            }
            depth[i] = d;
            root[i] = c;
            let (mut c, mut d) = (i, 0);
            while let Some(p) = prev[c] {
                if d > n {
                    break;
                }
                d += 1;
                c = p;
            }
            head[i] = c;
        }
        let mut last_for = vec![usize::MAX; n];
        for (k, id) in side.issued.iter().enumerate() {
            if let Some(i) = ix(Some(*id)) {
                last_for[i] = k;
            }
        }
        let (mut slot, mut class, mut live, mut dead) = (vec![], vec![], vec![], vec![]);
        for (k, id) in side.issued.iter().enumerate() {
            let c = match ix(Some(*id)) {
                None => Cl::Stale,
                Some(i) if !removed[i] && ar.verif_slot(i).0 == id.verif_stamp() => Cl::Live,
                Some(i) if removed[i] && last_for[i] == k => Cl::Dead,
                Some(_) => Cl::Stale,
            };
            slot.push(usize::from(*id) - 1);
            class.push(c);
            match c {
                Cl::Live => live.push(k),
                Cl::Dead => dead.push(k),
                Cl::Stale => {}
            }
        }
        let mut free_len = 0;
        let mut c = ar.verif_free_ends().0;
        while let Some(i) = c {
            if i >= n || free_len > n {
                break;
            }
            free_len += 1;
            c = ar.verif_slot(i).1.flatten();
        }
        // well-formedness: links name current ids of live nodes, are mutually consistent, acyclic
        let last: Vec<_> = sl.iter().map(|x| ix(x.last_child())).collect();
        let mut wf = true;
        for (i, x) in sl.iter().enumerate() {
            let links = [x.parent(), x.previous_sibling(), x.next_sibling(), x.first_child(), x.last_child()];
            for id in links.iter().flatten() {
                let j = usize::from(*id) - 1;
                wf &= j < n && !removed[j] && ar.verif_slot(j).0 == id.verif_stamp() && !removed[i];
            }
            if !wf {
                break;
            }
            wf &= removed[i] == ar.verif_slot(i).1.is_some();
            if removed[i] {
                continue;
            }
            let p = par[i];
            wf &= p != Some(i) && first[i].is_some() == last[i].is_some() && depth[i] <= n;
            wf &= match prev[i] {
                Some(y) => next[y] == Some(i) && par[y] == p,
                None => p.map_or(true, |p| first[p] == Some(i)),
            };
            wf &= match next[i] {
                Some(y) => prev[y] == Some(i) && par[y] == p,
                None => p.map_or(true, |p| last[p] == Some(i)),
            };
            wf &= first[i].map_or(true, |c| par[c] == Some(i) && prev[c].is_none());
            wf &= last[i].map_or(true, |c| par[c] == Some(i) && next[c].is_none());
            wf &= prev[head[i]].is_none();
        }
        View { n, removed, par, prev, next, first, depth, root, head, slot, class, live, dead, free_len, wf }
    }

    fn is_anc(&self, b: usize, a: usize) -> bool {
        let (mut c, mut d) = (a, 0);
        while let Some(p) = self.par[c] {
            if p == b {
                return true;
            }
            d += 1;
            if d > self.n {
                break;
            }
            c = p;
        }
        false
    }
    fn tl_sibs(&self, i: usize) -> bool {
        self.par[i].is_none() && (self.prev[i].is_some() || self.next[i].is_some())
    }

    /// Relation class (index into `REL`) of the ordered pair of handles `(a, b)`, both LIVE or DEAD.
    fn rel(&self, a: usize, b: usize) -> usize {
        if a == b {
            return 0;
        }
        match (self.class[a] == Cl::Dead, self.class[b] == Cl::Dead) {
            (true, false) => return 1,
            (false, true) => return 2,
            (true, true) => return 3,
            _ => {}
        }
        let (x, y) = (self.slot[a], self.slot[b]);
        if self.par[x] == Some(y) {
            4
        } else if self.is_anc(y, x) {
            5
        } else if self.par[y] == Some(x) {
            match (self.prev[y].is_none(), self.next[y].is_none()) {
                (true, true) => 9,
                (true, false) => 6,
                (false, true) => 7,
                (false, false) => 8,
            }
        } else if self.is_anc(x, y) {
            10
        } else if self.par[x] == self.par[y] && self.head[x] == self.head[y] {
            if self.prev[x] == Some(y) {
                11
            } else if self.next[x] == Some(y) {
                12
            } else {
                13
            }
        } else if self.par[y].is_none() {
            if self.tl_sibs(y) {
                15
            } else {
                14
            }
        } else if self.root[x] != self.root[y] {
            16
        } else {
            17
        }
    }

    fn in_node_class(&self, s: usize, c: usize) -> bool {
        let kids = self.first[s].is_some();
        let p = self.par[s].is_some();
        match c {
            0 => !p && !self.tl_sibs(s) && kids,
            1 => !p && !self.tl_sibs(s) && !kids,
            2 => self.tl_sibs(s),
            3 => p && kids,
            4 => p && !kids,
            5 => p && self.prev[s].is_none() && self.next[s].is_some(),
            6 => p && self.prev[s].is_some() && self.next[s].is_some(),
            7 => p && self.prev[s].is_some() && self.next[s].is_none(),
            _ => p && self.prev[s].is_none() && self.next[s].is_none(),
        }
    }

    /// Hash of a canonical rendering of the live forest that ignores ids and payloads.
    fn shape(&self) -> u64 {
        fn tree(v: &View, i: usize, out: &mut String, fuel: &mut usize) {
            out.push('(');
            let mut c = v.first[i];
            while let Some(k) = c {
                if *fuel == 0 {
                    return;
                }
                *fuel -= 1;
                tree(v, k, out, fuel);
                c = v.next[k];
            }
            out.push(')');
        }
        let mut fuel = 4 * self.n + 8;
        let mut chains = Vec::new();
        for i in 0..self.n {
            if !self.removed[i] && self.par[i].is_none() && self.prev[i].is_none() {
                let mut s = String::from("[");
                let mut c = Some(i);
                while let Some(k) = c {
                    if fuel == 0 {
                        break;
                    }
                    fuel -= 1;
                    tree(self, k, &mut s, &mut fuel);
                    c = self.next[k];
                }
                s.push(']');
                chains.push(s);
            }
        }
        chains.sort();
        let mut h = DefaultHasher::new();
        chains.hash(&mut h);
        h.finish()
    }
}

#[derive(Default)]
pub struct Stats {
    pub profile: String,
    pub histories: u64,
    pub commands: u64,
    pub mutating: u64,
    pub illformed_stops: u64,
    pub ops: BTreeMap<String, u64>,
    pub rel: BTreeMap<String, u64>,
    pub node_class: BTreeMap<String, u64>,
    pub outcomes: BTreeMap<String, u64>,
    pub count: BTreeMap<u64, u64>,
    pub live: BTreeMap<u64, u64>,
    pub depth: BTreeMap<u64, u64>,
    pub chains: BTreeMap<u64, u64>,
    pub free: BTreeMap<u64, u64>,
    pub shapes: HashSet<u64>,
}
fn bump<K: Ord>(m: &mut BTreeMap<K, u64>, k: K) {
    *m.entry(k).or_insert(0) += 1;
}
impl Stats {
    fn state(&mut self, v: &View) {
        bump(&mut self.count, v.n as u64);
        let live: Vec<usize> = (0..v.n).filter(|&i| !v.removed[i]).collect();
        bump(&mut self.live, live.len() as u64);
        bump(&mut self.depth, live.iter().map(|&i| v.depth[i]).max().unwrap_or(0) as u64);
        let ch = live.iter().filter(|&&i| v.par[i].is_none() && v.prev[i].is_none() && v.next[i].is_some()).count();
        bump(&mut self.chains, ch as u64);
        bump(&mut self.free, v.free_len as u64);
        self.shapes.insert(v.shape());
    }
    pub fn to_json(&self) -> String {
        fn m<K: ToString>(m: &BTreeMap<K, u64>) -> String {
            let v: Vec<String> = m.iter().map(|(k, n)| format!("\"{}\": {}", k.to_string(), n)).collect();
            format!("{{{}}}", v.join(", "))
        }
        format!(
            "{{\n \"profile\": \"{}\",\n \"histories\": {},\n \"total_commands\": {},\n \"mutating_commands\": {},\n \
             \"histories_stopped_illformed\": {},\n \"distinct_forest_shapes\": {},\n \"ops\": {},\n \"relation_classes\": {},\n \"node_classes\": {},\n \
             \"outcomes\": {},\n \"arena_count\": {},\n \"live_nodes\": {},\n \"max_depth\": {},\n \
             \"toplevel_chains_len_ge2\": {},\n \"free_list_len\": {}\n}}\n",
            self.profile,
            self.histories,
            self.commands,
            self.mutating,
            self.illformed_stops,
            self.shapes.len(),
            m(&self.ops),
            m(&self.rel),
            m(&self.node_class),
            m(&self.outcomes),
            m(&self.count),
            m(&self.live),
            m(&self.depth),
            m(&self.chains),
            m(&self.free)
        )
    }
}

fn weights(p: Profile) -> Vec<(&'static str, f64)> {
    let mut w: Vec<(&'static str, f64)> = Vec::new();
    if p == Profile::Alloc {
        w.extend([("new", 30.0), ("appv", 10.0), ("rem", 25.0), ("rst", 12.0), ("det", 2.0)]);
        w.extend(INSERTS.iter().map(|&i| (i, 2.0)));
        return w;
    }
    let (mut fork, mut swap, mut clear, mut reserve) = (1.0, 1.0, 0.5, 0.5);
    match p {
        Profile::Print => clear = 0.0,
        // clone / clone_from targets are then read through the iterators (from both ends)
        Profile::Iters => {
            fork = 3.0;
            swap = 3.0;
        }
        Profile::Serde => {
            swap = 3.0;
            w.push(("rt", 4.0));
        }
        Profile::Value => {
            fork = 6.0;
            swap = 6.0;
            clear = 4.0;
            reserve = 2.0;
        }
        _ => {}
    }
    if p == Profile::Big {
        w.extend([("new", 6.0), ("appv", 10.0), ("det", 6.0), ("rem", 10.0), ("rst", 12.0), ("wr", 1.0)]);
    } else {
        w.extend([("new", 14.0), ("appv", 8.0), ("det", 6.0), ("rem", 8.0), ("rst", 5.0), ("wr", 3.0)]);
    }
    w.extend(INSERTS.iter().map(|&i| (i, 6.0)));
    w.extend([("fork", fork), ("swap", swap), ("clear", clear), ("reserve", reserve)]);
    w
}

pub struct Gen<H: Hooks> {
    cfg: Cfg,
    pub ex: Exec,
    rng: Rng,
    ops: Box<dyn Write>,
    obs: Box<dyn Write>,
    pub stats: Stats,
    pub hooks: H,
    next_v: u64,
    w: Vec<(&'static str, f64)>,
}

impl<H: Hooks> Gen<H> {
    pub fn new(cfg: Cfg, ops: Box<dyn Write>, obs: Box<dyn Write>, hooks: H) -> Gen<H> {
        let mut stats = Stats { profile: format!("{:?}", cfg.profile).to_lowercase(), ..Default::default() };
        for r in REL {
            stats.rel.insert(r.to_string(), 0);
        }
        let w = weights(cfg.profile);
        Gen { rng: Rng(cfg.seed), cfg, ex: Exec::new(), ops, obs, stats, hooks, next_v: 1, w }
    }

    pub fn run(&mut self) -> io::Result<()> {
        for i in self.cfg.start..self.cfg.start + self.cfg.hists {
            self.history(i)?;
        }
        Ok(())
    }

    fn emit(&mut self, cmd: &str) -> io::Result<String> {
        self.ops.write_all(format!("{}\n", cmd).as_bytes())?;
        self.ops.flush()?;
        self.hooks.pre(&mut self.ex, cmd);
        let o = self.ex.step(cmd).unwrap_or_default();
        self.obs.write_all(format!("{}\n", o).as_bytes())?;
        self.obs.flush()?;
        self.hooks.post(&mut self.ex, cmd, &o);
        self.stats.commands += 1;
        Ok(o)
    }

    /// Emits a mutating command followed by `qa` and `qr`; records statistics.
    fn mutate(&mut self, cmd: &str) -> io::Result<String> {
        let o = self.emit(cmd)?;
        self.stats.mutating += 1;
        bump(&mut self.stats.ops, cmd.split(' ').next().unwrap_or("").to_string());
        let out = if o == "r ok" {
            "ok".to_string()
        } else if o.starts_with("r id") {
            "id".to_string()
        } else if let Some(e) = o.strip_prefix("r err ") {
            format!("err:{}", e)
        } else if o == "r panic" {
            "panic".to_string()
        } else if o.starts_with("s ") {
            (if o.contains(" DESERFAIL ") || o.contains("SERFAIL") { "serde_fail" } else { "serde" }).to_string()
        } else {
            o.clone()
        };
        bump(&mut self.stats.outcomes, out);
        self.emit("qa")?;
        self.emit("qr")?;
        let v = View::build(&self.ex.cur);
        self.stats.state(&v);
        Ok(o)
    }

    fn history(&mut self, idx: u64) -> io::Result<()> {
        self.rng = Rng(Rng(self.cfg.seed ^ (idx + 1).wrapping_mul(0xD1B5_4A32_D192_ED03)).next());
        self.next_v = 1;
        self.stats.histories += 1;
        self.emit(&format!("hist {}", idx))?;
        // `--prefix`: replay verbatim, then continue from the state reached. Fresh payload
        // serials start above every value the prefix used.
        for i in 0..self.cfg.prefix.len() {
            let cmd = self.cfg.prefix[i].clone();
            let t: Vec<&str> = cmd.split(' ').collect();
            let val = match t[0] {
                "new" => t.get(1),
                "appv" | "wr" => t.get(2),
                _ => None,
            };
            if let Some(x) = val.and_then(|x| x.parse::<u64>().ok()) {
                self.next_v = self.next_v.max(x.saturating_add(1));
            }
            self.emit(&cmd)?;
        }
        if self.cfg.profile == Profile::Big && self.cfg.prefix.is_empty() {
            // prelude: a random tree; parents are drawn with a bias towards recent nodes (depth) and towards
            // a few hubs (width), so that subtrees of 17+ nodes with nested inner nodes are common
            let n = 18 + self.rng.below(43);
            let v0 = self.fresh_v();
            self.emit(&format!("new {}", v0))?;
            for i in 1..n {
                let p = if self.rng.chance(0.45) { i - 1 - self.rng.below(i.min(3)) } else if self.rng.chance(0.5) { self.rng.below(i.min(4)) } else { self.rng.below(i) };
                let pv = self.fresh_v();
                self.emit(&format!("appv {} {}", p, pv))?;
            }
            self.emit("qa")?;
        }
        let every = if self.cfg.profile == Profile::Iters { 4.0 } else { 8.0 };
        let mut steps = 0;
        let mut wf = true;
        while steps < self.cfg.len {
            steps += self.step_mut()?;
            // A corrupted forest (only reachable by misuse, or by a defect) can make any further
            // library call loop forever: stop the history right here.
            wf = View::build(&self.ex.cur).wf && self.ex.alt.as_ref().map_or(true, |a| View::build(a).wf);
            if !wf {
                self.stats.illformed_stops += 1;
                // searching around a divergence (`--prefix`): look at the corrupted state through the
                // iterators once more before giving up (pulls are bounded; the caller times the process)
                if !self.cfg.prefix.is_empty() {
                    self.observe(true)?;
                }
                break;
            }
            if self.cfg.profile != Profile::Alloc && self.rng.chance(1.0 / every) {
                self.observe(false)?;
            }
        }
        if wf {
            self.observe(true)?;
        }
        self.hooks.hist_end(&mut self.ex, idx);
        self.emit("end")?;
        Ok(())
    }

    fn fresh_v(&mut self) -> u64 {
        self.next_v += 1;
        self.next_v - 1
    }

    fn any_handle(&mut self) -> Option<usize> {
        let n = self.ex.cur.issued.len();
        if n == 0 { None } else { Some(self.rng.below(n)) }
    }

    /// A live handle chosen by node class.
    fn pick_one(&mut self, v: &View) -> Option<usize> {
        if v.live.is_empty() {
            return None;
        }
        if self.rng.chance(0.8) {
            let members = |c: usize| -> Vec<usize> {
                v.live.iter().copied().filter(|&h| v.in_node_class(v.slot[h], c)).collect()
            };
            let nonempty: Vec<usize> = (0..NODE_CLASS.len()).filter(|&c| !members(c).is_empty()).collect();
            if !nonempty.is_empty() {
                let c = self.rng.pick(&nonempty);
                bump(&mut self.stats.node_class, NODE_CLASS[c].to_string());
                return Some(self.rng.pick(&members(c)));
            }
        }
        bump(&mut self.stats.node_class, "uniform".to_string());
        Some(self.rng.pick(&v.live))
    }

    /// One-id argument for `det/rem/rst/wr/appv`.
    fn one_arg(&mut self, v: &View, op: &str) -> Option<usize> {
        if self.cfg.profile == Profile::Misuse && self.rng.chance(0.3) {
            if let Some(h) = self.any_handle() {
                bump(&mut self.stats.node_class, "misuse_any".to_string());
                return Some(h);
            }
        }
        if op == "rst" && self.cfg.profile == Profile::Big && !v.live.is_empty() && self.rng.chance(0.35) {
            bump(&mut self.stats.node_class, "big_oldest".to_string());
            return v.live.iter().copied().min();
        }
        if op == "appv" && !v.dead.is_empty() && self.rng.chance(0.05) {
            bump(&mut self.stats.node_class, "dead".to_string());
            return Some(self.rng.pick(&v.dead));
        }
        self.pick_one(v)
    }

    /// Ordered pair `(a, b)` for `a.op(b)`, chosen by relation class.
    fn pick_pair(&mut self, v: &View) -> Option<(usize, usize)> {
        if self.cfg.profile == Profile::Misuse && self.rng.chance(0.3) {
            if let (Some(a), Some(b)) = (self.any_handle(), self.any_handle()) {
                bump(&mut self.stats.rel, "misuse_any".to_string());
                return Some((a, b));
            }
        }
        if v.live.is_empty() {
            return None;
        }
        let mut cand: Vec<usize> = v.live.iter().chain(v.dead.iter()).copied().collect();
        cand.sort_unstable();
        let mut buckets: Vec<Vec<(usize, usize)>> = vec![Vec::new(); REL.len()];
        for &a in &cand {
            for &b in &cand {
                buckets[v.rel(a, b)].push((a, b));
            }
        }
        let (a, b) = if self.rng.chance(0.8) {
            let nonempty: Vec<usize> = (0..REL.len()).filter(|&c| !buckets[c].is_empty()).collect();
            let c = self.rng.pick(&nonempty);
            self.rng.pick(&buckets[c])
        } else {
            (self.rng.pick(&cand), self.rng.pick(&cand))
        };
        bump(&mut self.stats.rel, REL[v.rel(a, b)].to_string());
        Some((a, b))
    }

    /// Generates one mutating step (plus its per-step observations); returns the number of
    /// mutating commands emitted.
    fn step_mut(&mut self) -> io::Result<usize> {
        let v = View::build(&self.ex.cur);
        let can_alloc = v.n < self.cfg.max_nodes || v.free_len > 0;
        let total: f64 = self.w.iter().map(|x| x.1).sum();
        for _ in 0..64 {
            let mut x = self.rng.unit() * total;
            let mut op = self.w[self.w.len() - 1].0;
            for &(name, wt) in &self.w {
                if x < wt {
                    op = name;
                    break;
                }
                x -= wt;
            }
            // warm-up: with few live nodes most draws would be `self` pairs and shapes stay trivial
            if v.live.len() < 7 && can_alloc && self.rng.chance(0.45) {
                op = if v.live.is_empty() || self.rng.chance(0.6) { "new" } else { "appv" };
            }
            let cmd = match op {
                "new" if can_alloc => format!("new {}", self.fresh_v()),
                "appv" if can_alloc => match self.one_arg(&v, op) {
                    Some(h) => {
                        let pv = self.fresh_v();
                        // C03: append_value(v) must leave the arena equal to new_node(v) followed by append
                        if self.rng.chance(0.5) {
                            self.emit(&format!("qav {} {}", h, pv))?;
                        }
                        format!("appv {} {}", h, pv)
                    }
                    None => continue,
                },
                "det" | "rem" | "rst" => match self.one_arg(&v, op) {
                    Some(h) => format!("{} {}", op, h),
                    None => continue,
                },
                "wr" => match self.one_arg(&v, op) {
                    Some(h) => format!("wr {} {}", h, self.fresh_v()),
                    None => continue,
                },
                "fork" => (if self.ex.alt.is_some() && self.rng.chance(0.5) { "forkfrom" } else { "fork" }).to_string(),
                "clear" => op.to_string(),
                "swap" if self.ex.alt.is_some() || self.rng.chance(0.1) => op.to_string(),
                "reserve" => format!("reserve {}", self.rng.below(65)),
                "rt" => {
                    self.mutate("fork")?;
                    self.mutate("serde")?;
                    self.emit("qeq")?;
                    return Ok(2);
                }
                _ if INSERTS.contains(&op) => match self.pick_pair(&v) {
                    Some((a, b)) => {
                        // now and then an argument is not the id kept from creation but the id the arena reports
                        // for that slot (`get_node_id` of the stored node): the same id for a live node, the slot's
                        // removed stamp for a removed one
                        let look = |h: usize, ex: &Exec| ex.cur.issued.get(h).map(|id| format!("g{}", usize::from(*id)));
                        let r = self.rng.unit();
                        let (sa, sb) = if r < 0.04 {
                            (look(a, &self.ex).unwrap_or(a.to_string()), b.to_string())
                        } else if r < 0.08 {
                            (a.to_string(), look(b, &self.ex).unwrap_or(b.to_string()))
                        } else {
                            (a.to_string(), b.to_string())
                        };
                        format!("{} {} {}", op, sa, sb)
                    }
                    None => continue,
                },
                _ => continue,
            };
            self.mutate(&cmd)?;
            self.after(op)?;
            return Ok(1);
        }
        self.mutate("reserve 0")?;
        Ok(1)
    }

    fn after(&mut self, op: &str) -> io::Result<()> {
        if self.cfg.profile == Profile::Alloc {
            self.emit("qf")?;
            self.emit("drops")?;
            return Ok(());
        }
        if matches!(op, "rem" | "rst" | "clear") {
            self.emit("drops")?;
        }
        if matches!(op, "fork" | "swap") || (self.cfg.profile == Profile::Value && matches!(op, "clear" | "reserve")) {
            self.emit("qeq")?;
        }
        // a copy made by clone / clone_from is looked at through every iterator (both ends) right away
        if op == "fork" && self.cfg.profile != Profile::Alloc && self.ex.alt.is_some() {
            self.mutate("swap")?;
            self.observe(false)?;
            self.mutate("swap")?;
        }
        Ok(())
    }

    fn obs_handle(&mut self, v: &View) -> Option<usize> {
        if self.cfg.profile == Profile::Misuse && self.rng.chance(0.3) {
            return self.any_handle();
        }
        if v.live.is_empty() { None } else { Some(self.rng.pick(&v.live)) }
    }

    fn qd(&mut self, h: usize, which: &str) -> io::Result<()> {
        let id = self.ex.cur.issued[h];
        let ar = &self.ex.cur.arena;
        let bound = 4 * ar.count() + 8;
        let len = guard(|| match which {
            "ch" => id.children(ar).take(bound).count(),
            "prec" => id.preceding_siblings(ar).take(bound).count(),
            _ => id.following_siblings(ar).take(bound).count(),
        })
        .unwrap_or(0);
        let plen = 1 + self.rng.below(len + 2);
        let pat: String = (0..plen).map(|_| if self.rng.chance(0.5) { 'f' } else { 'b' }).collect();
        self.emit(&format!("qd {} {} {}", h, which, pat))?;
        Ok(())
    }

    fn observe(&mut self, fin: bool) -> io::Result<()> {
        let v = View::build(&self.ex.cur);
        match self.cfg.profile {
            Profile::Alloc => {
                if fin {
                    self.emit("ql")?;
                }
            }
            Profile::Iters => {
                self.emit("qf")?;
                self.emit("ql")?;
                for &h in &v.live {
                    self.emit(&format!("qi {}", h))?;
                }
                for (k, &h) in v.live.iter().enumerate() {
                    if k < 6 || self.rng.chance(0.2) {
                        self.emit(&format!("qx {}", h))?;
                    }
                }
                if !v.live.is_empty() {
                    for _ in 0..3 {
                        let h = self.rng.pick(&v.live);
                        for which in ["ch", "prec", "foll"] {
                            for _ in 0..3 {
                                self.qd(h, which)?;
                            }
                        }
                    }
                }
            }
            _ => {
                self.emit("qf")?;
                self.emit("ql")?;
                for _ in 0..2 {
                    if let Some(h) = self.obs_handle(&v) {
                        self.emit(&format!("qi {}", h))?;
                    }
                }
                if let Some(h) = self.obs_handle(&v) {
                    let which = self.rng.pick(&["ch", "prec", "foll"]);
                    self.qd(h, which)?;
                }
                if let Some(h) = self.obs_handle(&v) {
                    self.emit(&format!("qx {}", h))?;
                }
            }
        }
        if fin && self.cfg.profile == Profile::Print {
            let mut vals: Vec<u64> = Vec::new();
            for &h in &v.live {
                let sl = self.ex.cur.arena.as_slice();
                if let Ok(x) = guard(|| sl[v.slot[h]].get().v) {
                    if !vals.contains(&x) {
                        vals.push(x);
                    }
                }
            }
            for x in vals {
                for mode in 0..4 {
                    let mut chunks: Vec<String> = Vec::new();
                    for c in self.rendering() {
                        // some chunks are handed to the formatter one character at a time (write_char)
                        if !c.is_empty() && self.rng.chance(0.3) {
                            for ch in c.chars() {
                                let mut b = [0u8; 4];
                                chunks.push(format!("w{}", ch.encode_utf8(&mut b).bytes().map(|x| format!("{:02x}", x)).collect::<String>()));
                            }
                        } else {
                            chunks.push(c.bytes().map(|b| format!("{:02x}", b)).collect());
                        }
                    }
                    self.emit(&format!("rend {} {} {}", x, mode, chunks.join(",")))?;
                }
            }
            for &h in &v.live {
                for mode in 0..4 {
                    self.emit(&format!("qp {} {}", h, mode))?;
                }
            }
        }
        Ok(())
    }

    /// A random rendering: 1-4 chunks whose concatenation is non-empty and does not end in `\n`.
    fn rendering(&mut self) -> Vec<String> {
        let r = &mut self.rng;
        if r.chance(0.3) {
            return vec![r.pick(&["a", "ok", "node", "x1", "foo", "é", "→b", "Z"]).to_string()];
        }
        const ALPH: [&str; 16] = ["a", "b", "c", "x", "y", "Z", "0", "7", " ", "-", "|", "`", "é", "→", "_", " "];
        let nlines = 1 + r.below(4);
        let mut lines = Vec::new();
        for i in 0..nlines {
            let empty = if i == nlines - 1 {
                false
            } else if i == 0 {
                r.chance(0.1)
            } else {
                r.chance(0.35)
            };
            let len = if empty { 0 } else { 1 + r.below(5) };
            lines.push((0..len).map(|_| r.pick(&ALPH)).collect::<String>());
        }
        // Windows line ends now and then: a '\r' right before the '\n' (and stray '\r's)
        let mut text = String::new();
        for (i, l) in lines.iter().enumerate() {
            if i > 0 {
                if r.chance(0.15) {
                    text.push('\r');
                }
                text.push('\n');
            }
            text.push_str(l);
            if !l.is_empty() && r.chance(0.05) {
                text.push('\r');
                text.push('x');
            }
        }
        let bounds: Vec<usize> = text.char_indices().map(|(i, _)| i).chain(std::iter::once(text.len())).collect();
        let nch = 1 + r.below(4);
        let mut cuts: Vec<usize> = (0..nch - 1).map(|_| r.pick(&bounds)).collect();
        cuts.sort_unstable();
        let mut chunks = Vec::new();
        let mut prev = 0;
        for c in cuts {
            chunks.push(text[prev..c].to_string());
            prev = c;
        }
        chunks.push(text[prev..].to_string());
        chunks
    }
}
