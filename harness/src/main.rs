//! vharness: Rust side of the indextree correspondence check (see /verif/PROTOCOL.md).

mod exec;
mod gen;
mod selfcheck;
#[cfg(feature = "deser")]
mod serde_tok;

use indextree::NodeId;
use std::collections::HashMap;
use std::fs::File;
use std::io::{self, BufRead, BufReader, Write};

/// Allocator with a hard cap: a library loop that grows a `Vec` forever (possible only on a
/// corrupted arena) aborts the process instead of exhausting the machine.
struct Capped;
static USED: std::sync::atomic::AtomicUsize = std::sync::atomic::AtomicUsize::new(0);
const CAP: usize = 1 << 30;
unsafe impl std::alloc::GlobalAlloc for Capped {
    unsafe fn alloc(&self, l: std::alloc::Layout) -> *mut u8 {
        use std::sync::atomic::Ordering::Relaxed;
        if USED.fetch_add(l.size(), Relaxed) + l.size() > CAP {
            USED.fetch_sub(l.size(), Relaxed);
            return std::ptr::null_mut();
        }
        std::alloc::System.alloc(l)
    }
    unsafe fn realloc(&self, p: *mut u8, l: std::alloc::Layout, new: usize) -> *mut u8 {
        use std::sync::atomic::Ordering::Relaxed;
        if new > l.size() && USED.fetch_add(new - l.size(), Relaxed) + (new - l.size()) > CAP {
            USED.fetch_sub(new - l.size(), Relaxed);
            return std::ptr::null_mut();
        }
        let q = std::alloc::System.realloc(p, l, new);
        if q.is_null() {
            if new > l.size() {
                USED.fetch_sub(new - l.size(), Relaxed);
            }
        } else if new < l.size() {
            USED.fetch_sub(l.size() - new, Relaxed);
        }
        q
    }
    unsafe fn dealloc(&self, p: *mut u8, l: std::alloc::Layout) {
        USED.fetch_sub(l.size(), std::sync::atomic::Ordering::Relaxed);
        std::alloc::System.dealloc(p, l)
    }
}
#[global_allocator]
static ALLOC: Capped = Capped;

/// SplitMix64.
pub struct Rng(pub u64);
impl Rng {
    pub fn next(&mut self) -> u64 {
        self.0 = self.0.wrapping_add(0x9E37_79B9_7F4A_7C15);
        let mut z = self.0;
        z = (z ^ (z >> 30)).wrapping_mul(0xBF58_476D_1CE4_E5B9);
        z = (z ^ (z >> 27)).wrapping_mul(0x94D0_49BB_1331_11EB);
        z ^ (z >> 31)
    }
    /// Uniform in `0..n` (`n > 0`).
    pub fn below(&mut self, n: usize) -> usize {
        (self.next() % n as u64) as usize
    }
    pub fn unit(&mut self) -> f64 {
        (self.next() >> 11) as f64 / (1u64 << 53) as f64
    }
    pub fn chance(&mut self, p: f64) -> bool {
        self.unit() < p
    }
    pub fn pick<T: Copy>(&mut self, v: &[T]) -> T {
        v[self.below(v.len())]
    }
}

const USAGE: &str = "usage:
  vharness run --ops <file> --obs <file>
  vharness gen --seed <u64> --hists <N> --len <L> --profile <core|alloc|iters|print|serde|value|misuse>
               --ops <file> --obs <file> [--stats <json>] [--max-nodes <k>] [--start <first history>]
               [--prefix <one-history ops file replayed at the start of every history>]
  vharness stamps --out <file>
  vharness selfcheck --seed <u64> --hists <N> --len <L> --out <file>";

struct Args(HashMap<String, String>);
impl Args {
    fn parse(a: &[String]) -> Result<Args, String> {
        let mut m = HashMap::new();
        let mut i = 0;
        while i < a.len() {
            let k = a[i].strip_prefix("--").ok_or_else(|| format!("unexpected argument {}", a[i]))?;
            let v = a.get(i + 1).ok_or_else(|| format!("missing value for --{}", k))?;
            m.insert(k.to_string(), v.clone());
            i += 2;
        }
        Ok(Args(m))
    }
    fn str(&self, k: &str) -> Result<&str, String> {
        self.0.get(k).map(|s| s.as_str()).ok_or_else(|| format!("missing --{}", k))
    }
    fn num<T: std::str::FromStr>(&self, k: &str) -> Result<T, String> {
        self.str(k)?.parse().map_err(|_| format!("bad value for --{}", k))
    }
    fn num_or<T: std::str::FromStr>(&self, k: &str, d: T) -> Result<T, String> {
        if self.0.contains_key(k) { self.num(k) } else { Ok(d) }
    }
}

fn io_err(what: &str, e: io::Error) -> String {
    format!("{}: {}", what, e)
}
fn create(p: &str) -> Result<File, String> {
    File::create(p).map_err(|e| io_err(p, e))
}

fn cmd_run(a: &Args) -> Result<(), String> {
    let ops = BufReader::new(File::open(a.str("ops")?).map_err(|e| io_err(a.str("ops").unwrap(), e))?);
    let mut obs = create(a.str("obs")?)?;
    let mut ex = exec::Exec::new();
    for line in ops.lines() {
        let line = line.map_err(|e| io_err("read ops", e))?;
        if let Some(mut o) = ex.step(&line) {
            o.push('\n');
            obs.write_all(o.as_bytes()).and_then(|_| obs.flush()).map_err(|e| io_err("write obs", e))?;
        }
    }
    Ok(())
}

fn cmd_gen(a: &Args) -> Result<(), String> {
    let cfg = gen::Cfg {
        seed: a.num("seed")?,
        hists: a.num("hists")?,
        len: a.num("len")?,
        profile: gen::Profile::parse(a.str("profile")?)?,
        max_nodes: a.num_or("max-nodes", if a.str("profile") == Ok("big") { 90 } else { 20 })?,
        start: a.num_or("start", 0)?,
        prefix: match a.str("prefix") {
            Ok(p) => gen::read_prefix(&std::fs::read_to_string(p).map_err(|e| io_err(p, e))?),
            Err(_) => Vec::new(),
        },
    };
    let ops: Box<dyn Write> = Box::new(create(a.str("ops")?)?);
    let obs: Box<dyn Write> = Box::new(create(a.str("obs")?)?);
    let mut g = gen::Gen::new(cfg, ops, obs, gen::NoHooks);
    g.run().map_err(|e| io_err("gen", e))?;
    if let Ok(p) = a.str("stats") {
        let mut f = create(p)?;
        f.write_all(g.stats.to_json().as_bytes()).map_err(|e| io_err(p, e))?;
    }
    Ok(())
}

fn cmd_stamps(a: &Args) -> Result<(), String> {
    let mut out = io::BufWriter::new(create(a.str("out")?)?);
    let b = |r: Result<bool, bool>| r.map_or("p".to_string(), |x| (x as u8).to_string());
    for s in i16::MIN..=i16::MAX {
        let l = format!(
            "{} {} {} {} {}\n",
            s,
            b(exec::guard(|| NodeId::verif_stamp_is_removed(s))),
            exec::guard(|| NodeId::verif_stamp_as_removed(s)).map_or("p".to_string(), |x| x.to_string()),
            b(exec::guard(|| NodeId::verif_stamp_reuseable(s))),
            exec::guard(|| NodeId::verif_stamp_reuse(s)).map_or("p".to_string(), |(n, r)| format!("{},{}", n, r)),
        );
        out.write_all(l.as_bytes()).map_err(|e| io_err("write", e))?;
    }
    out.flush().map_err(|e| io_err("write", e))
}

fn cmd_selfcheck(a: &Args) -> Result<(), String> {
    let out = create(a.str("out")?)?;
    selfcheck::run(a.num("seed")?, a.num("hists")?, a.num("len")?, out).map_err(|e| io_err("selfcheck", e))
}

/// C02 "every call returns": very tall and very wide trees on a thread with a small stack. Each phase is
/// announced (and flushed) before it runs, so that an abort (stack overflow) names the call that did not return.
fn cmd_deep(a: &Args) -> Result<(), String> {
    use indextree::Arena;
    let depth: usize = a.num_or("depth", 200_000)?;
    let stack: usize = a.num_or("stack", 256 * 1024)?;
    let h = std::thread::Builder::new()
        .stack_size(stack)
        .spawn(move || {
            let say = |s: &str| {
                println!("DEEP phase {}", s);
                let _ = io::stdout().flush();
            };
            for shape in ["path", "comb", "wide"] {
                say(&format!("{}: build", shape));
                let mut ar: Arena<u64> = Arena::new();
                let root = ar.new_node(0);
                let mut cur = root;
                let mut leaf = root;
                for i in 1..depth as u64 {
                    match shape {
                        "path" => {
                            cur = cur.append_value(i, &mut ar);
                            leaf = cur;
                        }
                        "comb" => {
                            // every level: a leaf and an inner node with a following sibling
                            let inner = cur.append_value(i, &mut ar);
                            if i % 2 == 0 {
                                cur.append_value(i, &mut ar);
                            }
                            cur = inner;
                            leaf = cur;
                        }
                        _ => {
                            leaf = root.append_value(i, &mut ar);
                        }
                    }
                }
                say(&format!("{}: ancestors / predecessors from the deepest node", shape));
                let na = leaf.ancestors(&ar).count();
                let np = leaf.predecessors(&ar).count();
                say(&format!("{}: descendants / traverse / reverse_traverse / children from the root", shape));
                let nd = root.descendants(&ar).count();
                let nt = root.traverse(&ar).count();
                let nr = root.reverse_traverse(&ar).count();
                let nc = root.children(&ar).count() + root.children(&ar).rev().count();
                say(&format!("{}: clone and compare", shape));
                let cl = ar.clone();
                let eq = cl == ar;
                say(&format!("{}: checked_append of the root under the deepest node (must be refused)", shape));
                let refused = leaf.checked_append(root, &mut ar).is_err() || leaf == root;
                say(&format!("{}: detach and re-append a middle node", shape));
                let mid = ar.get_node_id_at(std::num::NonZeroUsize::new(ar.count() / 2 + 1).unwrap()).unwrap();
                if mid != root {
                    let p = ar[mid].parent().unwrap();
                    mid.detach(&mut ar);
                    p.append(mid, &mut ar);
                }
                say(&format!("{}: remove a middle node", shape));
                if mid != root {
                    mid.remove(&mut ar);
                }
                say(&format!("{}: remove_subtree of the root", shape));
                root.remove_subtree(&mut ar);
                let live = ar.iter().filter(|n| !n.is_removed()).count();
                say(&format!("{}: drop", shape));
                let total = cl.count();
                drop(ar);
                println!("DEEP result {} nodes={} anc={} pred={} desc={} trav={} rtrav={} ch2={} clone_eq={} refused={} live_after={}", shape, depth, na, np, nd, nt, nr, nc, eq, refused, live);
                if nd != total || nt != 2 * total || nr != 2 * total || !eq || !refused || live != 0 {
                    println!("DEEP BAD {}", shape);
                }
            }
            println!("DEEP done");
        })
        .map_err(|e| e.to_string())?;
    h.join().map_err(|_| "deep: the thread panicked".to_string())
}

fn main() {
    std::panic::set_hook(Box::new(|_| {}));
    let argv: Vec<String> = std::env::args().collect();
    let r = match argv.get(1).map(|s| s.as_str()) {
        Some(c @ ("run" | "gen" | "stamps" | "selfcheck" | "deep")) => Args::parse(&argv[2..]).and_then(|a| match c {
            "run" => cmd_run(&a),
            "deep" => cmd_deep(&a),
            "gen" => cmd_gen(&a),
            "stamps" => cmd_stamps(&a),
            _ => cmd_selfcheck(&a),
        }),
        _ => Err(USAGE.to_string()),
    };
    if let Err(e) = r {
        eprintln!("vharness: {}", e);
        std::process::exit(2);
    }
}
