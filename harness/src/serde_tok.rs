//! In-harness serde format: a flat token stream (see PROTOCOL.md, "serde token line").
//!
//! `St<name>/<nfields>` .. `F<name>` value .. `End`; `Seq<n>` elements `End`; `None`; `Some` value;
//! `U<n>`; `I<n>`; `NS<name>` inner; `NV<Enum>::<Variant>/<idx>` inner.

use serde::de::{self, DeserializeOwned, DeserializeSeed, IntoDeserializer, Visitor};
use serde::ser::{self, Impossible, Serialize};
use std::fmt;

#[derive(Debug)]
pub struct TokErr(pub String);
impl fmt::Display for TokErr {
    fn fmt(&self, f: &mut fmt::Formatter<'_>) -> fmt::Result {
        f.write_str(&self.0)
    }
}
impl std::error::Error for TokErr {}
impl ser::Error for TokErr {
    fn custom<T: fmt::Display>(m: T) -> Self {
        TokErr(m.to_string())
    }
}
impl de::Error for TokErr {
    fn custom<T: fmt::Display>(m: T) -> Self {
        TokErr(m.to_string())
    }
}
fn err<T>(m: impl Into<String>) -> Result<T, TokErr> {
    Err(TokErr(m.into()))
}

// ---------------------------------------------------------------- serializer

pub struct Ser {
    out: Vec<String>,
}

pub fn to_tokens<T: Serialize>(v: &T) -> Result<Vec<String>, TokErr> {
    let mut s = Ser { out: Vec::new() };
    v.serialize(&mut s)?;
    Ok(s.out)
}

pub struct SeqSer<'a> {
    ser: &'a mut Ser,
    pos: usize,
    n: usize,
}
pub struct StructSer<'a>(&'a mut Ser);

macro_rules! unsupported {
    ($($f:ident($($t:ty),*) -> $r:ty;)*) => {$(
        fn $f(self $(, _: $t)*) -> Result<$r, TokErr> { err(concat!("unsupported: ", stringify!($f))) }
    )*};
}

impl<'a> ser::Serializer for &'a mut Ser {
    type Ok = ();
    type Error = TokErr;
    type SerializeSeq = SeqSer<'a>;
    type SerializeTuple = Impossible<(), TokErr>;
    type SerializeTupleStruct = Impossible<(), TokErr>;
    type SerializeTupleVariant = Impossible<(), TokErr>;
    type SerializeMap = Impossible<(), TokErr>;
    type SerializeStruct = StructSer<'a>;
    type SerializeStructVariant = Impossible<(), TokErr>;

    fn serialize_u8(self, v: u8) -> Result<(), TokErr> {
        self.serialize_u64(v as u64)
    }
    fn serialize_u16(self, v: u16) -> Result<(), TokErr> {
        self.serialize_u64(v as u64)
    }
    fn serialize_u32(self, v: u32) -> Result<(), TokErr> {
        self.serialize_u64(v as u64)
    }
    fn serialize_u64(self, v: u64) -> Result<(), TokErr> {
        self.out.push(format!("U{}", v));
        Ok(())
    }
    fn serialize_i8(self, v: i8) -> Result<(), TokErr> {
        self.serialize_i64(v as i64)
    }
    fn serialize_i16(self, v: i16) -> Result<(), TokErr> {
        self.serialize_i64(v as i64)
    }
    fn serialize_i32(self, v: i32) -> Result<(), TokErr> {
        self.serialize_i64(v as i64)
    }
    fn serialize_i64(self, v: i64) -> Result<(), TokErr> {
        self.out.push(format!("I{}", v));
        Ok(())
    }
    fn serialize_none(self) -> Result<(), TokErr> {
        self.out.push("None".into());
        Ok(())
    }
    fn serialize_some<T: ?Sized + Serialize>(self, v: &T) -> Result<(), TokErr> {
        self.out.push("Some".into());
        v.serialize(self)
    }
    fn serialize_newtype_struct<T: ?Sized + Serialize>(self, name: &'static str, v: &T) -> Result<(), TokErr> {
        self.out.push(format!("NS{}", name));
        v.serialize(self)
    }
    fn serialize_newtype_variant<T: ?Sized + Serialize>(
        self,
        name: &'static str,
        idx: u32,
        variant: &'static str,
        v: &T,
    ) -> Result<(), TokErr> {
        self.out.push(format!("NV{}::{}/{}", name, variant, idx));
        v.serialize(self)
    }
    fn serialize_seq(self, _len: Option<usize>) -> Result<SeqSer<'a>, TokErr> {
        let pos = self.out.len();
        self.out.push(String::new());
        Ok(SeqSer { ser: self, pos, n: 0 })
    }
    fn serialize_struct(self, name: &'static str, len: usize) -> Result<StructSer<'a>, TokErr> {
        self.out.push(format!("St{}/{}", name, len));
        Ok(StructSer(self))
    }
    unsupported! {
        serialize_bool(bool) -> ();
        serialize_f32(f32) -> ();
        serialize_f64(f64) -> ();
        serialize_char(char) -> ();
        serialize_str(&str) -> ();
        serialize_bytes(&[u8]) -> ();
        serialize_unit() -> ();
        serialize_unit_struct(&'static str) -> ();
        serialize_unit_variant(&'static str, u32, &'static str) -> ();
        serialize_tuple(usize) -> Self::SerializeTuple;
        serialize_tuple_struct(&'static str, usize) -> Self::SerializeTupleStruct;
        serialize_tuple_variant(&'static str, u32, &'static str, usize) -> Self::SerializeTupleVariant;
        serialize_map(Option<usize>) -> Self::SerializeMap;
        serialize_struct_variant(&'static str, u32, &'static str, usize) -> Self::SerializeStructVariant;
    }
}

impl ser::SerializeSeq for SeqSer<'_> {
    type Ok = ();
    type Error = TokErr;
    fn serialize_element<T: ?Sized + Serialize>(&mut self, v: &T) -> Result<(), TokErr> {
        self.n += 1;
        v.serialize(&mut *self.ser)
    }
    fn end(self) -> Result<(), TokErr> {
        self.ser.out[self.pos] = format!("Seq{}", self.n);
        self.ser.out.push("End".into());
        Ok(())
    }
}

impl ser::SerializeStruct for StructSer<'_> {
    type Ok = ();
    type Error = TokErr;
    fn serialize_field<T: ?Sized + Serialize>(&mut self, key: &'static str, v: &T) -> Result<(), TokErr> {
        self.0.out.push(format!("F{}", key));
        v.serialize(&mut *self.0)
    }
    fn end(self) -> Result<(), TokErr> {
        self.0.out.push("End".into());
        Ok(())
    }
}

// -------------------------------------------------------------- deserializer

pub struct De {
    toks: Vec<String>,
    pos: usize,
}

pub fn from_tokens<T: DeserializeOwned>(toks: Vec<String>) -> Result<T, TokErr> {
    let mut d = De { toks, pos: 0 };
    let v = T::deserialize(&mut d)?;
    if d.pos != d.toks.len() {
        return err(format!("trailing tokens at {}", d.pos));
    }
    Ok(v)
}

impl De {
    fn peek(&self) -> Result<&str, TokErr> {
        self.toks.get(self.pos).map(|s| s.as_str()).ok_or_else(|| TokErr("unexpected end of tokens".into()))
    }
    fn next(&mut self) -> Result<String, TokErr> {
        let t = self.peek()?.to_string();
        self.pos += 1;
        Ok(t)
    }
    /// Consumes the next token, which must start with `pre`; returns the rest.
    fn expect(&mut self, pre: &str) -> Result<String, TokErr> {
        let t = self.peek()?;
        match t.strip_prefix(pre) {
            Some(r) if !(pre == "St" && t == "Some") => {
                let r = r.to_string();
                self.pos += 1;
                Ok(r)
            }
            _ => err(format!("expected {}.. got {} at {}", pre, t, self.pos)),
        }
    }
    fn unsigned(&mut self) -> Result<u64, TokErr> {
        let r = self.expect("U")?;
        r.parse().map_err(|_| TokErr(format!("bad unsigned U{}", r)))
    }
    fn signed(&mut self) -> Result<i64, TokErr> {
        let r = self.expect("I")?;
        r.parse().map_err(|_| TokErr(format!("bad signed I{}", r)))
    }
    fn seq<'de, V: Visitor<'de>>(&mut self, v: V) -> Result<V::Value, TokErr> {
        let r = self.expect("Seq")?;
        let n: usize = r.parse().map_err(|_| TokErr(format!("bad Seq{}", r)))?;
        let mut acc = SeqAcc { de: self, done: false, seen: 0, n };
        let val = v.visit_seq(&mut acc)?;
        if !acc.done {
            let t = acc.de.next()?;
            if t != "End" {
                return err(format!("expected End of seq got {}", t));
            }
        }
        if acc.seen != n {
            return err(format!("Seq{} has {} elements", n, acc.seen));
        }
        Ok(val)
    }
    fn map<'de, V: Visitor<'de>>(&mut self, name: Option<&str>, v: V) -> Result<V::Value, TokErr> {
        let r = self.expect("St")?;
        let got = r.split('/').next().unwrap_or("");
        if let Some(n) = name {
            if n != got {
                return err(format!("expected struct {} got {}", n, got));
            }
        }
        v.visit_map(MapAcc { de: self })
    }
    fn variant<'de, V: Visitor<'de>>(&mut self, name: Option<&str>, v: V) -> Result<V::Value, TokErr> {
        let r = self.expect("NV")?;
        let (en, rest) = r.split_once("::").ok_or_else(|| TokErr(format!("bad NV{}", r)))?;
        if let Some(n) = name {
            if n != en {
                return err(format!("expected enum {} got {}", n, en));
            }
        }
        let variant = rest.split('/').next().unwrap_or("").to_string();
        v.visit_enum(EnumAcc { de: self, variant })
    }
}

macro_rules! de_unsigned { ($($f:ident)*) => {$(
    fn $f<V: Visitor<'de>>(self, v: V) -> Result<V::Value, TokErr> { v.visit_u64(self.unsigned()?) }
)*}; }
macro_rules! de_signed { ($($f:ident)*) => {$(
    fn $f<V: Visitor<'de>>(self, v: V) -> Result<V::Value, TokErr> { v.visit_i64(self.signed()?) }
)*}; }

impl<'de> de::Deserializer<'de> for &mut De {
    type Error = TokErr;

    fn deserialize_any<V: Visitor<'de>>(self, v: V) -> Result<V::Value, TokErr> {
        let t = self.peek()?.to_string();
        match t.as_str() {
            "None" | "Some" => self.deserialize_option(v),
            "End" => err(format!("unexpected End at {}", self.pos)),
            _ if t.starts_with("Seq") => self.seq(v),
            _ if t.starts_with("St") => self.map(None, v),
            _ if t.starts_with("NS") => {
                self.pos += 1;
                v.visit_newtype_struct(self)
            }
            _ if t.starts_with("NV") => self.variant(None, v),
            _ if t.starts_with('F') => self.deserialize_identifier(v),
            _ if t.starts_with('U') => v.visit_u64(self.unsigned()?),
            _ if t.starts_with('I') => v.visit_i64(self.signed()?),
            _ => err(format!("unknown token {}", t)),
        }
    }
    de_unsigned! { deserialize_u8 deserialize_u16 deserialize_u32 deserialize_u64 }
    de_signed! { deserialize_i8 deserialize_i16 deserialize_i32 deserialize_i64 }

    fn deserialize_option<V: Visitor<'de>>(self, v: V) -> Result<V::Value, TokErr> {
        match self.next()?.as_str() {
            "None" => v.visit_none(),
            "Some" => v.visit_some(self),
            t => err(format!("expected None/Some got {}", t)),
        }
    }
    fn deserialize_seq<V: Visitor<'de>>(self, v: V) -> Result<V::Value, TokErr> {
        self.seq(v)
    }
    fn deserialize_struct<V: Visitor<'de>>(
        self,
        name: &'static str,
        _fields: &'static [&'static str],
        v: V,
    ) -> Result<V::Value, TokErr> {
        self.map(Some(name), v)
    }
    fn deserialize_newtype_struct<V: Visitor<'de>>(self, name: &'static str, v: V) -> Result<V::Value, TokErr> {
        let got = self.expect("NS")?;
        if got != name {
            return err(format!("expected newtype {} got {}", name, got));
        }
        v.visit_newtype_struct(self)
    }
    fn deserialize_enum<V: Visitor<'de>>(
        self,
        name: &'static str,
        _variants: &'static [&'static str],
        v: V,
    ) -> Result<V::Value, TokErr> {
        self.variant(Some(name), v)
    }
    fn deserialize_identifier<V: Visitor<'de>>(self, v: V) -> Result<V::Value, TokErr> {
        let name = self.expect("F")?;
        v.visit_str(&name)
    }
    serde::forward_to_deserialize_any! {
        bool i128 u128 f32 f64 char str string bytes byte_buf unit unit_struct tuple tuple_struct map ignored_any
    }
}

struct SeqAcc<'a> {
    de: &'a mut De,
    done: bool,
    seen: usize,
    n: usize,
}
impl<'de> de::SeqAccess<'de> for SeqAcc<'_> {
    type Error = TokErr;
    fn next_element_seed<S: DeserializeSeed<'de>>(&mut self, seed: S) -> Result<Option<S::Value>, TokErr> {
        if self.done {
            return Ok(None);
        }
        if self.de.peek()? == "End" {
            self.de.pos += 1;
            self.done = true;
            return Ok(None);
        }
        self.seen += 1;
        seed.deserialize(&mut *self.de).map(Some)
    }
    fn size_hint(&self) -> Option<usize> {
        Some(self.n.saturating_sub(self.seen))
    }
}

struct MapAcc<'a> {
    de: &'a mut De,
}
impl<'de> de::MapAccess<'de> for MapAcc<'_> {
    type Error = TokErr;
    fn next_key_seed<S: DeserializeSeed<'de>>(&mut self, seed: S) -> Result<Option<S::Value>, TokErr> {
        if self.de.peek()? == "End" {
            self.de.pos += 1;
            return Ok(None);
        }
        seed.deserialize(&mut *self.de).map(Some)
    }
    fn next_value_seed<S: DeserializeSeed<'de>>(&mut self, seed: S) -> Result<S::Value, TokErr> {
        seed.deserialize(&mut *self.de)
    }
}

struct EnumAcc<'a> {
    de: &'a mut De,
    variant: String,
}
impl<'de, 'a> de::EnumAccess<'de> for EnumAcc<'a> {
    type Error = TokErr;
    type Variant = VarAcc<'a>;
    fn variant_seed<S: DeserializeSeed<'de>>(self, seed: S) -> Result<(S::Value, VarAcc<'a>), TokErr> {
        let d: de::value::StrDeserializer<'_, TokErr> = self.variant.as_str().into_deserializer();
        let val = seed.deserialize(d)?;
        Ok((val, VarAcc { de: self.de }))
    }
}
struct VarAcc<'a> {
    de: &'a mut De,
}
impl<'de> de::VariantAccess<'de> for VarAcc<'_> {
    type Error = TokErr;
    fn unit_variant(self) -> Result<(), TokErr> {
        err("unsupported: unit variant")
    }
    fn newtype_variant_seed<S: DeserializeSeed<'de>>(self, seed: S) -> Result<S::Value, TokErr> {
        seed.deserialize(self.de)
    }
    fn tuple_variant<V: Visitor<'de>>(self, _len: usize, _v: V) -> Result<V::Value, TokErr> {
        err("unsupported: tuple variant")
    }
    fn struct_variant<V: Visitor<'de>>(self, _f: &'static [&'static str], _v: V) -> Result<V::Value, TokErr> {
        err("unsupported: struct variant")
    }
}
