//! Implementation-only checks (no model involved): address/identity facts (C11), determinism and
//! capacity facts (C13), Send/Sync and concurrent readers (C18).

use crate::exec::{fid, guard, Exec, Pay, CLONE_TAG};
use crate::gen::{Cfg, Gen, Hooks, Profile};
use indextree::*;
use std::collections::BTreeMap;
use std::io::{self, Write};
use std::num::NonZeroUsize;

fn assert_send_sync<T: Send + Sync>() {}

#[allow(deprecated)]
fn static_c18() {
    assert_send_sync::<Arena<Pay>>();
    assert_send_sync::<Node<Pay>>();
    assert_send_sync::<NodeId>();
    assert_send_sync::<NodeEdge>();
    assert_send_sync::<Ancestors<'static, Pay>>();
    assert_send_sync::<Predecessors<'static, Pay>>();
    assert_send_sync::<PrecedingSiblings<'static, Pay>>();
    assert_send_sync::<FollowingSiblings<'static, Pay>>();
    assert_send_sync::<Children<'static, Pay>>();
    assert_send_sync::<ReverseChildren<'static, Pay>>();
    assert_send_sync::<Descendants<'static, Pay>>();
    assert_send_sync::<Traverse<'static, Pay>>();
    assert_send_sync::<ReverseTraverse<'static, Pay>>();
}

fn scratch_clone(a: &Arena<Pay>) -> Arena<Pay> {
    CLONE_TAG.with(|c| c.set(0));
    a.clone()
}

/// All nine traversals from every live node plus its payload, as text.
#[allow(deprecated)]
fn battery(ar: &Arena<Pay>, live: &[NodeId]) -> Vec<String> {
    let n = 4 * ar.count() + 8;
    let ids = |it: &mut dyn Iterator<Item = NodeId>| it.take(n).map(|i| usize::from(i).to_string()).collect::<Vec<_>>().join(",");
    let eds = |it: &mut dyn Iterator<Item = NodeEdge>| it.take(n).map(|e| format!("{:?}", e)).collect::<Vec<_>>().join(",");
    live.iter()
        .map(|&x| {
            format!(
                "{} v={:?} {} {} {} {} {} {} {} {} {}",
                usize::from(x),
                ar.get(x).map(|nd| nd.get().v),
                ids(&mut x.ancestors(ar)),
                ids(&mut x.predecessors(ar)),
                ids(&mut x.preceding_siblings(ar)),
                ids(&mut x.following_siblings(ar)),
                ids(&mut x.children(ar)),
                ids(&mut x.reverse_children(ar)),
                ids(&mut x.descendants(ar)),
                eds(&mut x.traverse(ar)),
                eds(&mut x.reverse_traverse(ar)),
            )
        })
        .collect()
}

struct Chk {
    shadow: Exec,
    lines: Vec<String>,
    checks: BTreeMap<&'static str, u64>,
    fails: BTreeMap<&'static str, u64>,
    hist: u64,
    step: u64,
    before: Option<(Arena<Pay>, usize)>,
    /// Own bookkeeping of live ids of `cur` / `alt`: exactly the ids returned by
    /// `new_node`/`append_value`, minus those the harness itself removed.
    mine: Vec<NodeId>,
    mine_alt: Option<Vec<NodeId>>,
    /// Ids about to be removed by the pending `rem`/`rst` command (taken before the call).
    doomed: Vec<NodeId>,
}

impl Chk {
    fn ck(&mut self, prop: &'static str, ok: bool, msg: impl FnOnce() -> String) {
        *self.checks.entry(prop).or_insert(0) += 1;
        if !ok {
            *self.fails.entry(prop).or_insert(0) += 1;
            self.lines.push(format!("SELF {} hist={} step={} {}", prop, self.hist, self.step, msg()));
        }
    }

    fn c11(&mut self, ar: &mut Arena<Pay>, mine: &[NodeId]) {
        let count = ar.count();
        self.ck("C11", count == ar.iter().count() && count == ar.as_slice().len(), || "count/iter/as_slice lengths differ".into());
        self.ck("C11", ar.is_empty() == (count == 0), || "is_empty != (count==0)".into());
        for &id in mine {
            if ar.get(id).is_none() {
                self.ck("C11", false, || format!("get({}) is None for an id the harness never removed", fid(id)));
                continue;
            }
            self.ck("C11", !id.is_removed(ar), || {
                format!("id {} returned at creation reports is_removed()==true while the harness never removed it", fid(id))
            });
            let p1 = ar.get(id).map(|r| r as *const Node<Pay>);
            let p2 = &ar[id] as *const Node<Pay>;
            let p3 = ar.get_mut(id).map(|r| r as *mut Node<Pay> as *const Node<Pay>);
            self.ck("C11", p1 == Some(p2) && p3 == Some(p2), || format!("get/index/get_mut addresses differ for {}", id));
            let r = ar.get(id).unwrap();
            self.ck("C11", ar.get_node_id(r) == Some(id), || format!("get_node_id(arena.get({}).unwrap()) = {:?}", fid(id), ar.get_node_id(&ar[id]).map(fid)));
            self.ck("C11", ar.get_node_id_at(NonZeroUsize::from(id)) == Some(id), || format!("get_node_id_at({}) wrong", id));
            let r = &ar[id];
            let pos = ar.iter().position(|n| std::ptr::eq(n, r));
            let pos2 = ar.as_slice().iter().position(|n| std::ptr::eq(n, r));
            let want = pos.map(|p| p + 1);
            let ok = pos.is_some()
                && pos == pos2
                && Some(usize::from(id)) == want
                && Some(NonZeroUsize::from(id).get()) == want
                && id.to_string().parse::<usize>().ok() == want
                && format!("{:#}", id).parse::<usize>().ok() == want
                && format!("{:>1}", id).parse::<usize>().ok() == want;
            self.ck("C11", ok, || format!("index conversions of {} disagree with position {:?}", id, pos));
        }
        for i in 0..count {
            if ar.as_slice()[i].is_removed() {
                let r = ar.get_node_id_at(NonZeroUsize::new(i + 1).unwrap());
                self.ck("C11", r.is_none(), || format!("get_node_id_at(removed slot {}) = {:?}", i + 1, r));
            }
        }
        for k in [count + 1, count + 2] {
            let r = ar.get_node_id_at(NonZeroUsize::new(k).unwrap());
            self.ck("C11", r.is_none(), || format!("get_node_id_at({}) beyond count = {:?}", k, r));
        }
        let mut big: Arena<Pay> = Arena::new();
        let mut ids = Vec::new();
        for _ in 0..count + 3 {
            ids.push(big.new_node(Pay { v: 0, tag: 0 }));
        }
        for &far in &ids[count..] {
            self.ck("C11", ar.get(far).is_none(), || format!("get(id {} beyond range) is Some", far));
        }
        let cl = scratch_clone(ar);
        let foreign = cl.iter().chain(big.iter()).all(|n| ar.get_node_id(n).is_none());
        self.ck("C11", foreign, || "get_node_id of a node of a clone / unrelated arena is Some".into());
        let back = ar.iter().all(|n| cl.get_node_id(n).is_none() && big.get_node_id(n).is_none());
        self.ck("C11", back, || "clone/unrelated arena resolves a node of the original".into());
    }

    fn c18(&mut self, ar: &Arena<Pay>, issued: &[NodeId]) {
        let live: Vec<NodeId> = issued.iter().copied().filter(|id| !id.is_removed(ar)).collect();
        let single = battery(ar, &live);
        let results: Vec<Option<Vec<String>>> = std::thread::scope(|s| {
            let hs: Vec<_> = (0..8).map(|_| s.spawn(|| battery(ar, &live))).collect();
            hs.into_iter().map(|h| h.join().ok()).collect()
        });
        for (t, r) in results.iter().enumerate() {
            self.ck("C18", r.as_ref() == Some(&single), || format!("thread {} result differs from single-threaded result", t));
        }
        #[cfg(feature = "par_iter")]
        {
            use rayon::prelude::*;
            let f = |n: &Node<Pay>| if n.is_removed() { None } else { Some(n.get().v) };
            let par: Vec<Option<u64>> = ar.par_iter().map(f).collect();
            let seq: Vec<Option<u64>> = ar.iter().map(f).collect();
            self.ck("C18", par == seq, || "par_iter() collected differs from iter()".into());
        }
    }
}

fn mutating(cmd: &str) -> bool {
    !(cmd.starts_with('q') || cmd.starts_with("drops") || cmd.starts_with("rend") || cmd.starts_with("hist") || cmd == "end")
}

impl Hooks for Chk {
    fn pre(&mut self, ex: &mut Exec, cmd: &str) {
        self.doomed.clear();
        let mut t = cmd.split(' ');
        if let (Some(op @ ("rem" | "rst")), Some(h)) = (t.next(), t.next()) {
            if let Some(&id) = h.parse::<usize>().ok().and_then(|h| ex.cur.issued.get(h)) {
                let ar = &ex.cur.arena;
                self.doomed = if op == "rem" {
                    vec![id]
                } else {
                    guard(|| id.descendants(ar).take(4 * ar.count() + 8).collect()).unwrap_or_else(|_| vec![id])
                };
            }
        }
        if cmd.starts_with("reserve") || cmd == "clear" {
            self.before = Some((scratch_clone(&ex.cur.arena), ex.cur.arena.capacity()));
        }
    }

    fn post(&mut self, ex: &mut Exec, cmd: &str, obs: &str) {
        if let Some(n) = cmd.strip_prefix("hist ") {
            self.hist = n.parse().unwrap_or(0);
            self.step = 0;
            self.mine.clear();
            self.mine_alt = None;
            for n in [0usize, 1, 7, 100, 5000, if self.hist % 16 == 0 { 60_000 } else { 300 }] {
                let mut a = Arena::<Pay>::with_capacity(n);
                let cap = a.capacity();
                self.ck("C13", cap >= n, || format!("with_capacity({}).capacity() = {}", n, cap));
                // clear() keeps the capacity, whatever its size
                for v in 0..3u64 {
                    a.new_node(Pay { v, tag: 0 });
                }
                let before = a.capacity();
                a.clear();
                let after = a.capacity();
                self.ck("C13", after == before && after >= n, || format!("clear() changed the capacity of a with_capacity({}) arena from {} to {}", n, before, after));
                a.reserve(n + 3000);
                let reserved = a.capacity();
                self.ck("C13", reserved >= n + 3000, || format!("reserve({}) on an empty arena gives capacity {}", n + 3000, reserved));
                a.clear();
                let kept = a.capacity();
                self.ck("C13", kept == reserved, || format!("clear() changed the capacity from {} to {}", reserved, kept));
            }
        }
        let so = self.shadow.step(cmd).unwrap_or_default();
        self.ck("C13", so == obs, || format!("second run of `{}` observed `{}` instead of `{}`", cmd, so, obs));
        if !mutating(cmd) {
            return;
        }
        self.step += 1;
        let r = guard(|| {
            let same = ex.cur.arena == self.shadow.cur.arena && ex.cur.issued == self.shadow.cur.issued;
            self.ck("C13", same, || format!("two runs differ after `{}`", cmd));
            let ar = &mut ex.cur.arena;
            if let Some((old, cap)) = self.before.take() {
                if let Some(k) = cmd.strip_prefix("reserve ").and_then(|k| k.parse::<usize>().ok()) {
                    let c = ar.capacity();
                    self.ck("C13", c >= ar.count() + k, || format!("capacity {} < count {} + {}", c, ar.count(), k));
                    self.ck("C13", *ar == old, || "reserve changed the arena".into());
                } else {
                    let c = ar.capacity();
                    self.ck("C13", c == cap, || format!("clear changed capacity {} -> {}", cap, c));
                    self.ck("C13", ar.count() == 0 && ar.is_empty(), || "arena not empty after clear".into());
                }
            }
            let op = cmd.split(' ').next().unwrap_or("");
            match op {
                "new" | "appv" if obs.starts_with("r id ") => {
                    if let Some(&new_id) = ex.cur.issued.last() {
                        self.mine.push(new_id);
                        let at = ar.get_node_id_at(NonZeroUsize::from(new_id));
                        self.ck("C11", at == Some(new_id), || {
                            format!("get_node_id_at of the id {} just returned by `{}` = {:?}", fid(new_id), cmd, at.map(fid))
                        });
                        let back = ar.get(new_id).and_then(|n| ar.get_node_id(n));
                        self.ck("C11", back == Some(new_id), || {
                            format!("get_node_id(&arena[id]) of the id {} just returned by `{}` = {:?}", fid(new_id), cmd, back.map(fid))
                        });
                    }
                }
                "rem" | "rst" if obs == "r ok" => {
                    let doomed = std::mem::take(&mut self.doomed);
                    self.mine.retain(|id| !doomed.contains(id));
                }
                "clear" => self.mine.clear(),
                "fork" | "forkfrom" if obs == "r ok" => self.mine_alt = Some(self.mine.clone()),
                "swap" => {
                    if let Some(a) = self.mine_alt.as_mut() {
                        std::mem::swap(&mut self.mine, a);
                    }
                }
                _ => {}
            }
            let mine = self.mine.clone();
            self.c11(ar, &mine);
        });
        self.ck("SELF", r.is_ok(), || format!("checker panicked after `{}`", cmd));
    }

    fn hist_end(&mut self, ex: &mut Exec, _hist: u64) {
        let r = guard(|| self.c18(&ex.cur.arena, &ex.cur.issued));
        self.ck("SELF", r.is_ok(), || "C18 checker panicked".into());
    }
}

pub fn run(seed: u64, hists: u64, len: usize, mut out: impl Write) -> io::Result<()> {
    static_c18();
    let chk = Chk {
        shadow: Exec::new(),
        lines: Vec::new(),
        checks: BTreeMap::new(),
        fails: BTreeMap::new(),
        hist: 0,
        step: 0,
        before: None,
        mine: Vec::new(),
        mine_alt: None,
        doomed: Vec::new(),
    };
    let cfg = Cfg { seed, hists, len, profile: Profile::Core, max_nodes: 20, start: 0, prefix: Vec::new() };
    let mut g = Gen::new(cfg, Box::new(io::sink()), Box::new(io::sink()), chk);
    g.run()?;
    let c = &g.hooks;
    for l in &c.lines {
        writeln!(out, "{}", l)?;
    }
    let kv = |m: &BTreeMap<&'static str, u64>| m.iter().map(|(k, v)| format!("\"{}\": {}", k, v)).collect::<Vec<_>>().join(", ");
    writeln!(
        out,
        "SUMMARY {{\"histories\": {}, \"commands\": {}, \"send_sync_static\": true, \"par_iter\": {}, \"checks\": {{{}}}, \"failures\": {{{}}}}}",
        g.stats.histories,
        g.stats.commands,
        cfg!(feature = "par_iter"),
        kv(&c.checks),
        kv(&c.fails)
    )?;
    out.flush()
}
