#!/bin/sh
# Builds debug+release and checks, for every profile and several seeds, that
#   (1) `gen` observations == `run` observations on the generated ops file (debug and release),
#   (2) (optional, if /verif/runner/runner exists) the model runner agrees (misuse excluded).
# usage: ./check.sh [seeds...]      (default seeds: 1 2 3)
set -e
cd "$(dirname "$0")"
export RUSTFLAGS="--cfg indextree_verif" CARGO_TARGET_DIR=/verif/.cache/harness-target
FEAT="${FEAT:-deser,par_iter}"
[ -f Cargo.lock ] || cp /repo/Cargo.lock .
cargo build --offline --features "$FEAT" 2>/dev/null
cargo build --offline --features "$FEAT" --release 2>/dev/null
W=/verif/.cache/ht; mkdir -p $W
SEEDS="${*:-1 2 3}"
fail=0
for p in core alloc iters print serde value misuse; do
 for s in $SEEDS; do
  for m in debug release; do
   B=$CARGO_TARGET_DIR/$m/vharness; f=$W/$p.$s.$m
   if ! timeout 120 $B gen --seed $s --hists ${HISTS:-60} --len ${LEN:-40} --profile $p --ops $f.ops --obs $f.gen --stats $f.json; then
     echo "GEN rc=$? $p seed=$s $m (timeout = hang inside the library; expected only for misuse)"; [ $p = misuse ] || fail=1; continue; fi
   timeout 120 $B run --ops $f.ops --obs $f.run || { echo "RUN FAILED $p $s $m"; fail=1; }
   cmp -s $f.gen $f.run || { echo "GEN!=RUN $p seed=$s $m"; fail=1; }
   if [ -x /verif/runner/runner ] && [ $p != misuse ]; then
     d=0; [ $m = debug ] && d=1
     timeout 300 /verif/runner/runner --ops $f.ops --obs $f.model --dbg $d || echo "RUNNER rc=$? $p $s $m"
     cmp -s $f.run $f.model || { echo "MODEL!=IMPL $p seed=$s $m: $(diff $f.run $f.model | head -3 | cut -c1-200)"; }
   fi
  done
  cmp -s $W/$p.$s.debug.ops $W/$p.$s.release.ops || echo "note: debug/release ops differ for $p seed=$s (allowed: outcomes feed the generator)"
 done
done
[ $fail = 0 ] && echo "check.sh: gen==run for all profiles/seeds/builds"
exit $fail
