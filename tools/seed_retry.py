#!/usr/bin/env python3
"""usage: tools/seed_retry.py <tag> <seeded-dir-glob-prefix> ...   e.g. tools/seed_retry.py after_source_tie r3
re-runs the quick check of every recorded seeded change whose directory name contains the given marker
against /repo with the change applied (and restores /repo), and records the verdict in meta.json under
verdicts_<tag>."""
import glob, json, os, re, subprocess, sys, time
VERIF = os.path.dirname(os.path.dirname(os.path.abspath(__file__)))
tag, marker = sys.argv[1], sys.argv[2]
only = sys.argv[3:]
for d in sorted(glob.glob(os.path.join(VERIF, "seeded", "*-%s*" % marker))):
    meta_p = os.path.join(d, "meta.json")
    meta = json.load(open(meta_p))
    pid = meta["property"]
    if only and os.path.basename(d) not in only and pid not in only: continue
    t = subprocess.run([os.path.join(VERIF, "tools/seed_try.sh"), os.path.join(d, "patch.diff"), pid], stdout=subprocess.PIPE, stderr=subprocess.STDOUT, text=True).stdout
    v = "no verdict"
    for l in t.splitlines():
        m = re.match(r"(OK|VIOLATION) property=(\S+)(.*)", l)
        if m and m.group(2) == pid:
            v = "missed" if m.group(1) == "OK" else ("caught (no failing input found; theorem / correspondence broken)" if "no-failing-input-found" in l else "caught with failing input")
            rp = re.search(r"replay=(\S+)", l)
            if rp and os.path.exists(rp.group(1)):
                hdr = [x.rstrip("\n") for x in open(rp.group(1)) if x.startswith("#")][:6]
                meta["replay_header_" + tag] = hdr
    meta["verdicts_" + tag] = {pid: v}
    json.dump(meta, open(meta_p, "w"), indent=1)
    print(time.strftime("%T"), os.path.basename(d), v, flush=True)
subprocess.run(["git", "-C", "/repo", "checkout", "--", "."])
print("ALLDONE")
