#!/usr/bin/env python3
"""usage: tools/mkinv.py — (re)writes coq/props/INV<file>.v from the CURRENT coq/gen/GenInventory.v: each file pins the
inventory of one source file as a literal.  Run by hand when the pinned inventory is to be re-baselined (never by a check)."""
import os, re, sys
VERIF = os.path.dirname(os.path.dirname(os.path.abspath(__file__)))
gen = sys.argv[1] if len(sys.argv) > 1 else os.path.join(VERIF, "coq", "gen", "GenInventory.v")
out = sys.argv[2] if len(sys.argv) > 2 else os.path.join(VERIF, "coq", "props")
s = open(gen).read()
for m in re.finditer(r"Definition inv_(\w+) : list \(string \* list string\) := (\[.*?\n\])\.", s, re.S):
    name, lit = m.group(1), m.group(2)
    o = """(* INV%s — pinned inventory of indextree/src/%s.rs: every trait impl with its methods, every derive list,
   every static / const / macro-generated item (macro_rules! arms are read with their metavariables substituted).
   coq/gen/GenInventory.v is REGENERATED from the sources on every run by rs2coq; this theorem fails when the file
   gains or loses an impl, a method inside an impl (e.g. an overridden `fold`), a derive (e.g. Clone replaced by a
   hand-written impl), a static, or when the body of an expression macro changes.  The model accounts for exactly
   the items listed here. *)
From Coq Require Import String List.
Import ListNotations.
From IT.gen Require Import GenInventory.
Open Scope string_scope.

Theorem SRC_inventory_%s : inv_%s = %s.
Proof. reflexivity. Qed.

Print Assumptions SRC_inventory_%s.
""" % (name, name, name, name, lit, name)
    if name == "cargo":
        o = o.replace("pinned inventory of indextree/src/cargo.rs: every trait impl with its methods, every derive list,\n   every static / const / macro-generated item (macro_rules! arms are read with their metavariables substituted).",
                      "the three cargo manifests (workspace, indextree, indextree-macros) line by line without the descriptive\n   metadata: features and what they switch on, dependencies, profiles (overflow checks, panic strategy), lints.")
    if name == "files":
        o = o.replace("pinned inventory of indextree/src/files.rs: every trait impl with its methods, every derive list,\n   every static / const / macro-generated item (macro_rules! arms are read with their metavariables substituted).",
                      "the set of source files of the two crates and the absence of build scripts: every file listed here is read by\n   rs2coq (translated or pinned); a new file, a removed file or a build.rs changes this list.")
    open(os.path.join(out, "INV%s.v" % name), "w").write(o)
    print("wrote INV%s.v" % name)
