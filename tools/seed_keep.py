#!/usr/bin/env python3
"""usage: tools/seed_keep.py <ID> <mK> [<extra property ids to try> ...]
Confirms a seeded change from /tmp/mut/<ID>-out/<mK>.diff in the scratch worktree /tmp/mut/<ID>
(demo passes on the original, existing suite passes with the change, demo fails with the change),
runs the quick check of <ID> (and extra ids) against /repo with the change applied (and restores
/repo), and records everything under /verif/seeded/<ID>-<mK>/."""
import json, os, re, shutil, subprocess, sys, time
VERIF = os.path.dirname(os.path.dirname(os.path.abspath(__file__)))
pid, mk = sys.argv[1], sys.argv[2]
extra = sys.argv[3:]
BASE = os.environ.get("SEEDBASE", "/tmp/mut")
TAG = os.environ.get("SEEDTAG", "")
src = "%s/%s-out" % (BASE, pid)
diff, demo = "%s/%s.diff" % (src, mk), "%s/%s_demo.rs" % (src, mk)
out = os.path.join(VERIF, "seeded", "%s-%s%s" % (pid, TAG, mk))
os.makedirs(out, exist_ok=True)
shutil.copy(diff, os.path.join(out, "patch.diff"))
shutil.copy(demo, os.path.join(out, "demo.rs"))
c = subprocess.run([os.path.join(VERIF, "tools/seed_confirm.sh"), BASE + "/" + pid, diff, demo], stdout=subprocess.PIPE, stderr=subprocess.STDOUT, text=True).stdout
print(c.strip())
confirmed = all(("%d." % i) in c and re.search(r"%d\. .*: yes" % i, c) for i in (1, 2, 3))
t = subprocess.run([os.path.join(VERIF, "tools/seed_try.sh"), diff, pid] + extra, stdout=subprocess.PIPE, stderr=subprocess.STDOUT, text=True).stdout
print(t.strip())
verdicts = {}
for l in t.splitlines():
    m = re.match(r"(OK|VIOLATION) property=(\S+)(.*)", l)
    if m:
        verdicts[m.group(2)] = ("missed" if m.group(1) == "OK" else ("caught (no failing input found; correspondence/theorem broken)" if "no-failing-input-found" in l else "caught with failing input")) 
        rp = re.search(r"replay=(\S+)", l)
        if rp and os.path.exists(rp.group(1)) and m.group(2) == pid:
            shutil.copy(rp.group(1), os.path.join(out, "replay_found.ops"))
notes = ""
try:
    notes = open(os.path.join(src, "NOTES.md")).read()
except Exception:
    pass
meta = {"property": pid, "mutation": mk, "confirmed_by_me": confirmed, "confirmation_log": c.strip().splitlines(),
        "what_i_ran": ["tools/seed_confirm.sh <scratch worktree of %s> %s %s  (scratch worktree: demo on original, existing suite with change, demo with change)" % (pid, diff, demo),
                       "tools/seed_try.sh %s %s %s  (git -C /repo apply; bin/vcheck <id> --tier quick; git -C /repo checkout -- .)" % (diff, pid, " ".join(extra))],
        "verdicts_quick": verdicts, "recorded_at": time.strftime("%Y-%m-%d %H:%M:%S"),
        "needs_to_manifest_and_notes": notes[:6000]}
json.dump(meta, open(os.path.join(out, "meta.json"), "w"), indent=1)
print("->", out, verdicts, "confirmed" if confirmed else "NOT CONFIRMED")
