#!/bin/sh
# runs every property's check under several seeds (and optionally the thorough tier) and prints only
# what is not OK: used to look for flaky alarms on the unchanged tree.
# usage: tools/sweep.sh <tier> <seed> [<seed> ...]
cd "$(dirname "$0")/.."
TIER="$1"; shift
[ -x runner/runner ] || bin/setup
for S in "$@"; do
  for P in C01 C02 C03 C04 C05 C06 C07 C08 C09 C10 C11 C12 C13 C14 C15 C16 C17 C18; do
    OUT=$(VERIF_SEED=$S bin/vcheck $P --tier $TIER 2>/tmp/sweep_err.log | tail -1)
    case "$OUT" in OK*) echo "seed=$S $OUT" ;; *) echo "seed=$S $P NOT-OK: $OUT"; tail -5 /tmp/sweep_err.log ;; esac
  done
done
