#!/usr/bin/env python3
"""regenerates /verif/MANIFEST.json from the table below (kept in one place so that the manifest,
the checks and DESIGN.md do not drift)."""
import json, os
VERIF = os.path.dirname(os.path.dirname(os.path.abspath(__file__)))

# id -> (category, technique, level text, level note)
P = {}
def prop(pid, cat, tech, text, note, ref):
    P[pid] = dict(cat=cat, tech=tech, text=text, note=note, ref=ref)

CORR = ("Tie to the code: Rust harness built from /repo's working tree (debug+release, hooks on) and the extracted Coq model run the same seeded, relation-aware histories; the property's view of every observation is compared and the property's own statement (monitors extracted from coq/theories/Monitor.v) is evaluated on the implementation's states. ")
TB = ("Trusted: Coq 8.16.1 kernel + VM, no axioms (Print Assumptions closed for every pinned theorem); the hand-written model coq/theories (validated by the correspondence run, which samples); extraction (ExtrOcamlBasic only) + OCaml glue; Rust harness, rustc/cargo; tools/vlib.py. ")

REACH = "Theorems are stated over EVERY valid history from the empty arena (induction over the operation list; invariant WF = Repr /\\ AllocOK of coq/theories/Props.v, preserved by every valid call: proofs/Assembly.v step_WF). Stated for release semantics (dbg=false) and transferred to debug builds by proofs/DebugProofs.v (step true w o = step false w o on every valid call); both profiles are also run by the correspondence check. "
prop("C01", "proof", "Coq proof: representation invariant (ghost ordered forest) preserved by every operation => LinksOK on every reachable arena; + correspondence and the same statement as executable monitor on implementation states", "Theorems C01_links_wellformed / C01_monitor_silent / C01_represents_forest (coq/props/C01.v): after any valid history the arena satisfies LinksOK (the property text over the arena's fields) and the executable monitor c01_check is silent. " + REACH + CORR, TB, "6.1")
prop("C02", "proof", "Coq proof: depth relation in the invariant => finite duplicate-free walks bounded by the number of live nodes; no valid call diverges; + bounded walks and timeouts on the implementation", "Theorems C02_* (coq/props/C02.v): parent / next / prev walks from every live node of every reachable arena are finite NoDup paths no longer than the number of live nodes; every iterator returns Ok with NoDup output; no valid call returns Diverge and the only panics are the documented refusals. " + REACH + CORR, TB, "6.2")
prop("C03", "proof", "Coq refinement proof: each successful insert/detach/append_value commutes with list surgery on the abstract forest; arena equality for no-op reinsert and append_value = new_node;append", "Theorems C03_* (coq/props/C03.v): C03_insert / C03_detach / C03_append_value (Repr after = f_op of Repr before, same_shape), C03_reinsert_noop and C03_append_value_eq as arena equalities, C03_*_means spelling out the list surgery. " + REACH + CORR, TB, "6.3")
prop("C04", "proof", "Coq refinement proof: remove = substitute x by its children; remove_subtree removes exactly the pre-order of x", "Theorems C04_* (coq/props/C04.v): C04_remove (f_remove, removed set grows by exactly x), C04_remove_subtree (f_remove_subtree, removed set grows by exactly the pre-order D of x). " + REACH + CORR, TB, "6.4")
prop("C05", "proof", "Coq proof: Err <-> impossible (decidable), reason applies, arena unchanged; unchecked panics iff checked errs; no other valid call panics or diverges", "Theorems C05_* (coq/props/C05.v) for the eight entry points and every pair of usable ids in every reachable world. C05_debug_and_release_alike / C05_debug_histories: the debug build returns exactly what the release build returns on every valid call (no debug assertion, triangle check or overflow check ever fires), so all theorems transfer to debug builds. " + REACH + CORR, TB, "6.5")
prop("C06", "proof", "Coq proof: allocation invariant over worlds (NoDup issued, is_removed exact, stamps in i16) for histories of any length; stamp arithmetic over the whole i16 range; exhaustive 65536-input comparison and 33000-cycle wrap history on the implementation", "Theorems C06_* (coq/props/C06.v): ids unique, is_removed exact and total, removed forever (absent clear), no overflow, generation strictly increases per cycle (forall dbg), exhausted slot retired. Tie: NodeStamp functions compared over ALL 65536 inputs in debug and release; one slot recycled 33000+ times across the end of its counter. " + REACH + CORR, TB, "6.6")
prop("C07", "proof", "Coq proof: free-list ghost invariant; new_node pops the head or grows by one and touches no other slot; free_node appends exactly when reusable", "Theorems C07_* (coq/props/C07.v) in every reachable world. Tie: allocation monitors (slot not live, others untouched, count rule) and the free list drained by allocations == reusable removed slots. " + REACH + CORR, TB, "6.7")
prop("C08", "proof", "Coq proof: payload frame lemma per step and multiset accounting (Permutation) of introduced = dropped ++ stored over whole histories", "Theorems C08_* (coq/props/C08.v). Tie: payload tokens with identity and a logging Drop impl: payload behind every live id after every step, drop log == payloads ever held at the end of every history. " + REACH + CORR, TB + "Rust drop semantics is modelled (free_node/clear/write return what they drop).", "6.8")
prop("C09", "proof", "Coq proof: traversals = Euler tour / pre-order of the rose tree of the abstract forest (induction on trees); link-following iterators = is_path; steps inverse; from every live node of every reachable arena", "Theorems C09_* (coq/props/C09.v): all nine iterators from every live node of every reachable arena yield exactly the documented sequences (no fuel exhaustion), traverse confined to the subtree, reverse_traverse its reversal, next_traverse/prev_traverse inverse on all live edges. " + REACH + CORR, TB, "6.9")
prop("C10", "proof", "Coq proof: (head,tail) machine = deque specification for every pull sequence (induction on pulls), + correspondence", "Theorems C10_* (coq/props/C10.v): for EVERY sequence of front/back pulls over any linked sibling run the double-ended machine returns exactly de_spec (front pulls forward, back pulls backward, each element once, then None at both ends). C10_*_reachable: from every live node of every reachable arena (children, following, preceding; parentless nodes in top-level chains included). " + REACH + CORR, TB, "6.10")
prop("C11", "proof", "Coq proof of the index/stamp logic of every lookup path (partial: references abstracted to positions); implementation self-checks with real references", "Theorems C11_* (coq/props/C11.v) for every arena. Lookup agreement checked on the implementation itself (addresses of get / Index / get_mut, get_node_id of own, cloned and foreign references, positions vs iter()/as_slice(), counts, out-of-range) plus get_node_id_at compared with the documented answer computed from the dump. Pointer arithmetic in get_node_id cannot be exhibited by a theorem. " + CORR, TB, "6.11")
prop("C12", "proof", "Coq proof: removed slots have no links (invariant), links of live nodes name live nodes, all nine entry points refuse a removed id atomically", "Theorems C12_* (coq/props/C12.v). " + REACH + "Monitors: removed slots have no links (every state), no live link names a removed id (c01), all nine entry points refuse a removed id in either position without changing the arena. " + CORR, TB, "6.12")
prop("C13", "proof", "Coq proof (partial): behaviour is a function of the arena value alone, clear() continues exactly like a new arena, capacity guarantees for any growth policy; determinism and clone-independence experiments on the implementation", "Theorems C13_* (coq/props/C13.v). Same seeded histories executed twice -> identical observations; fork/swap histories: a clone compares equal and the value not in use never changes; clear() -> empty arena and model continues from init; reserve/with_capacity/clear capacity guarantees on the implementation. " + CORR, TB, "6.13")
prop("C14", "proof", "Coq proof: writer state machine = render specification (induction on rose trees, all chunkings), + byte-exact correspondence", "Theorem C14_print (coq/props/C14.v): for every tree shape, every start node, every payload rendering given as an arbitrary chunking (non-empty, not ending in newline, interior empty lines allowed), four modes, debug and release: the IndentWriter machine outputs exactly `render`, never panics, never exhausts fuel. Tie: byte-exact comparison of the four outputs from every live node with generated multi-line / multi-chunk / UTF-8 renderings, and with `render` computed from the dump. " + CORR, TB, "6.14")
prop("C15", "proof", "Coq proof: the macro's flatten-and-interpret stack machine = plain recursion on the literal, which builds the literal's tree (induction on literals); real tree! invocations compiled by rustc and compared", "Theorems C15_macro_is_what_is_written and C15_builds_the_literal (coq/props/C15.v) for every literal forest, both root forms, in every reachable world: no panic, returns the root, evaluation log = root expression then all node expressions in textual order each once, created nodes shaped like the literal and appended after the root's existing children, nothing else changes. Tie: a batch of random tree literals (shapes, widths, depths, both root forms, `=> {}` and trailing-comma spellings, side-effecting expressions, arena expression with a side effect) is compiled against /repo and root id, evaluation log and full arena dump are compared with MacroModel.tree_macro_full.", TB + "syn parsing, quote! splicing and autoref dispatch are modelled, not verified.", "6.15")
prop("C16", "proof", "Coq proof: decode (encode a ++ rest) = Some (a, rest) for every arena (structural induction), + token-level correspondence", "Theorems C16_roundtrip / C16_injective / C16_continue (coq/props/C16.v) over the serde data-model view of the derived impls, for every arena value with i16 stamps. Tie: the implementation's token stream (in-harness Serializer) must equal `encode` of the dumped arena, deserialize(serialize(a)) == a, and histories continue on the round-tripped copy. " + CORR, TB + "serde_derive's expansion is modelled.", "6.16")
prop("C17", "translation_validation", "translator regenerates the cfg-gate inventory from the sources; Coq theorem that every feature gate is of an additive kind; same battery under every feature set vs one model", "Static half: coq/gen/GenCfg.v is regenerated from /repo on every run and C17_gates_additive re-proved over it (fail-closed on unclassifiable gates). Dynamic half: the same battery of histories (core/iters/print) is executed under 7 (quick) / all 16 (thorough) feature sets and each is compared line by line with the model; par_iter() vs iter().", TB + "rustc's meaning of cfg is trusted; tools/translate.py is trusted.", "6.17")
prop("C18", "proof", "Coq: Send/Sync derivation over field types regenerated from the sources + schedule-independence theorem for readers; rustc assert_send_sync and 8-thread runs as oracle", "Theorems C18_* (coq/props/C18.v): auto-trait derivation for Arena/Node/NodeId/NodeEdge and the nine iterators over coq/gen/GenTypes.v (regenerated every run), no unsafe / interior-mutability tokens, and for EVERY schedule each reader's observations equal those of the reader running alone. Partial: memory-model data-race freedom is delegated to safe Rust. Tie: rustc checks assert_send_sync instantiations; 8 threads over one &Arena and par_iter compared with a single thread.", TB + "auto-trait rules (AutoTraits.v) are the modelled meaning of rustc's inference.", "6.18")

SRCT = (" Source tie (regenerated on every run): rs2coq (/verif/rs2coq, Rust+syn) translates the Rust functions of id.rs / node.rs / relations.rs / "
        "siblings_range.rs / arena.rs / traverse.rs (NodeStamp, Node helpers, connect_neighbors, detach_from_siblings, rewrite_parents, transplant, "
        "insert_with_neighbors, insert_last_unchecked, new_node, free_node, pop_front_free_node, clear, lookups, detach, the eight inserts, append_value, "
        "remove, remove_subtree, get_node_id, next_traverse, prev_traverse, the iterator machines of new_iterator!, Traverse/ReverseTraverse, and the pretty printer's IndentWriter state machine) into Gallina (coq/gen/Gen{Stamp,Rel,Alloc,Ops,Trav,Print}.v); theorems SRC_* "
        "(coq/props/SRC{alloc,rel,ops,trav,step,print}.v, listed among this check's obligations) prove each regenerated definition equal to (for the printer: a refinement of) the hand-written model "
        "function for every input and arena, so a change to one of these functions breaks a proof obligation of this check whether or not the random "
        "histories reach it; the check then searches for a failing input. Every function body that is not translated, every trait impl / derive / import, the cargo manifests and the set of source files are pinned by the INV* obligations (coq/gen/GenInventory.v, regenerated every run).")
SRC_PIDS = ["C01", "C02", "C03", "C04", "C05", "C06", "C07", "C08", "C09", "C10", "C11", "C12", "C13", "C14", "C15"]

def main():
    for pid in SRC_PIDS:
        P[pid]["text"] += SRCT
        P[pid]["tech"] += "; + source-regenerated Gallina definitions of the core functions proved equal to the model (SRC_* theorems)"
    checks = []
    for pid in sorted(P):
        p = P[pid]
        checks.append({
            "property_id": pid,
            "quick_cmd": "bin/vcheck %s --tier quick" % pid,
            "thorough_cmd": "bin/vcheck %s --tier thorough" % pid,
            "evidence_file": "evidence/%s.json" % pid,
            "replay_cmd_template": "bin/vcheck %s --replay {path}" % pid,
            "engine": "coq+correspondence",
            "level_claimed": {"category": p["cat"], "text": p["text"], "design_ref": "DESIGN.md section " + p["ref"]},
            "level_note": p["note"],
            "technique": p["tech"],
        })
    m = {
        "version": 1,
        "setup_cmd": "bin/setup",
        "hooks": {
            "guard": "indextree_verif",
            "enable": "RUSTFLAGS=\"--cfg indextree_verif\" cargo build --offline (the harness crate /verif/harness depends on /repo/indextree by path)",
            "baseline_off_cmd": "cd /repo && cargo test --workspace --no-fail-fast --offline",
            "source_commits": ["ca02ead"],
            "add_only": True
        },
        "engines": [
            {"name": "coq+correspondence", "path": "bin/vcheck", "serves_properties": sorted(P),
             "kind_free_text": "machine-checked proof in Coq 8.16 about a hand-written executable model (coq/theories), tied to the code on every run by a differential correspondence check (Rust harness vs extracted model) and property monitors extracted from Coq; translator-regenerated inventories for C17/C18"}
        ],
        "checks": checks,
        "not_applicable": [],
        "notes": "Seven genuine defects were found while building the model and repaired by `fix:` commits in /repo (see known_findings.json and DESIGN.md section 7). exit 2 from a check means the tooling failed (no verdict)."
    }
    json.dump(m, open(os.path.join(VERIF, "MANIFEST.json"), "w"), indent=1)

if __name__ == "__main__":
    main()
