#!/usr/bin/env python3
"""regenerates /verif/MANIFEST.json from the table below (kept in one place so that the manifest,
the checks and DESIGN.md do not drift)."""
import json, os
VERIF = os.path.dirname(os.path.dirname(os.path.abspath(__file__)))

# id -> (category, technique, level text, level note)
P = {}
def prop(pid, cat, tech, text, note, ref):
    P[pid] = dict(cat=cat, tech=tech, text=text, note=note, ref=ref)

CORR = ("Tie to the code: Rust harness built from /repo's working tree (debug+release, hooks on) and the extracted Coq model run the same seeded, relation-aware histories; the property's view of every observation is compared and the property's own statement (monitors extracted from coq/theories/Monitor.v) is evaluated on the implementation's states. ")
TB = ("Trusted: Coq 8.16.1 kernel + VM, no axioms (Print Assumptions closed for every pinned theorem); the hand-written model coq/theories (validated by the correspondence run, which samples); extraction (ExtrOcamlBasic only) + OCaml glue; Rust harness, rustc/cargo; tools/vlib.py. ")

EXPL = "Coq model + differential correspondence + property monitors (theorems for this property are still being proved; see DESIGN.md)"
prop("C01", "exploration", EXPL, "Refinement theorems (detach/insert/remove preserve the representation invariant Repr of coq/theories/Forest.v) are in progress; until they are pinned in coq/props/C01.v this check decides the property by correspondence: model==implementation on all links after every step, and the monitor c01_check (the property text over computed views) on every implementation state. " + CORR, TB + "Sampling only until the theorems land.", "6.1")
prop("C02", "exploration", EXPL, "Bounded parent/sibling walks (monitor c02_check) on every implementation state; every library call runs under a process timeout (a hang is a violation); iterator outputs compared with the model. " + CORR, TB + "Sampling only until the theorems land.", "6.2")
prop("C03", "exploration", EXPL, "Every successful insert/detach/append_value is compared with the abstract forest operation of coq/theories/Forest.v (monitor check_step: abs(after) = f_op(abs(before)), stamps/payloads untouched), whole-arena equality via ==. " + CORR, TB + "Sampling only until the theorems land.", "6.3")
prop("C04", "exploration", EXPL, "remove / remove_subtree compared with f_remove / f_remove_subtree on the abstract forest computed from the implementation's dumps; set of removed nodes, survivors' payloads. " + CORR, TB + "Sampling only until the theorems land.", "6.4")
prop("C05", "exploration", EXPL, "Outcome of each of the eight insert entry points vs `impossible` computed from the dump (Err iff impossible, reason applies, arena == snapshot after Err/panic, unchecked panics iff checked errs), debug and release, relation-aware argument pairs incl. removed ids. " + CORR, TB + "Sampling only until the theorems land.", "6.5")
prop("C06", "exploration", EXPL + "; exhaustive comparison of the four NodeStamp functions over all 65536 i16 values", "NodeStamp functions compared with the model over ALL 65536 inputs in debug and release (exhaustive, incl. wrap-around and panics) and the generation laws checked on the implementation's table; one slot recycled 33000+ times across and beyond the end of its generation counter with is_removed of every issued id checked; ordinary histories: every new id distinct, is_removed monotone and exact. " + CORR, TB + "Theorems (AllocOK invariant) in progress.", "6.6")
prop("C07", "exploration", EXPL, "Allocation monitors: new id's slot held no live node, no other node touched, count rule, free list drained by allocations == reusable removed slots (each exactly once). " + CORR, TB + "Theorems (FreeOK invariant) in progress.", "6.7")
prop("C08", "exploration", EXPL, "Payload tokens with identity and a logging Drop impl: payload behind every live id after every step, drop log == payloads ever held (each exactly once) at the end of every history. " + CORR, TB + "Rust drop semantics is modelled (returned explicitly by free_node/clear/write).", "6.8")
prop("C09", "proof", "Coq proof: traversals = Euler tour / pre-order of the embedded rose tree (induction on trees), + correspondence", "Theorems C09_* (coq/props/C09.v): for every rose tree laid out in an arena, traverse/reverse_traverse/descendants/children/reverse_children yield exactly the documented sequences and consecutive tour edges are one next_traverse/prev_traverse step apart, no fuel exhaustion. Ancestors/predecessors/sibling iterators: by correspondence + monitors (spec sequences computed from the dump) for every live start node. " + CORR, TB, "6.9")
prop("C10", "proof", "Coq proof: (head,tail) machine = deque specification for every pull sequence (induction on pulls), + correspondence", "Theorems C10_* (coq/props/C10.v): for EVERY sequence of front/back pulls over any linked sibling run the double-ended machine returns exactly de_spec (front pulls forward, back pulls backward, each element once, then None at both ends). Constructors' choice of (head, tail) for parentless nodes: correspondence + monitors with random pull patterns from every live node. " + CORR, TB, "6.10")
prop("C11", "exploration", EXPL + "; implementation self-checks with real references", "Lookup agreement checked on the implementation itself (addresses of get / Index / get_mut, get_node_id of own, cloned and foreign references, positions vs iter()/as_slice(), counts, out-of-range) plus get_node_id_at compared with the documented answer computed from the dump. Pointer arithmetic in get_node_id cannot be exhibited by a theorem. " + CORR, TB, "6.11")
prop("C12", "exploration", EXPL, "Monitors: removed slots have no links (every state), no live link names a removed id (c01), all nine entry points refuse a removed id in either position without changing the arena. " + CORR, TB + "Sampling only until the theorems land.", "6.12")
prop("C13", "exploration", EXPL + "; determinism and clone-independence experiments", "Same seeded histories executed twice -> identical observations; fork/swap histories: a clone compares equal and the value not in use never changes; clear() -> empty arena and model continues from init; reserve/with_capacity/clear capacity guarantees on the implementation. " + CORR, TB, "6.13")
prop("C14", "proof", "Coq proof: writer state machine = render specification (induction on rose trees, all chunkings), + byte-exact correspondence", "Theorem C14_print (coq/props/C14.v): for every tree shape, every start node, every payload rendering given as an arbitrary chunking (non-empty, not ending in newline, interior empty lines allowed), four modes, debug and release: the IndentWriter machine outputs exactly `render`, never panics, never exhausts fuel. Tie: byte-exact comparison of the four outputs from every live node with generated multi-line / multi-chunk / UTF-8 renderings, and with `render` computed from the dump. " + CORR, TB, "6.14")
prop("C15", "exploration", "Coq model of the macro's flattening loop + generated program, compared with real tree! invocations compiled by rustc", "A batch of random tree literals (shapes, widths, depths, both root forms, `=> {}` and trailing-comma spellings, side-effecting expressions) is compiled against /repo and the returned root, evaluation log and full arena dump are compared with MacroModel.tree_macro_full. Theorem (flatten+interpret = graft of the literal) in progress.", TB + "syn parsing, quote! splicing and autoref dispatch are modelled, not verified.", "6.15")
prop("C16", "proof", "Coq proof: decode (encode a ++ rest) = Some (a, rest) for every arena (structural induction), + token-level correspondence", "Theorems C16_roundtrip / C16_injective / C16_continue (coq/props/C16.v) over the serde data-model view of the derived impls, for every arena value with i16 stamps. Tie: the implementation's token stream (in-harness Serializer) must equal `encode` of the dumped arena, deserialize(serialize(a)) == a, and histories continue on the round-tripped copy. " + CORR, TB + "serde_derive's expansion is modelled.", "6.16")
prop("C17", "translation_validation", "translator regenerates the cfg-gate inventory from the sources; Coq theorem that every feature gate is of an additive kind; same battery under every feature set vs one model", "Static half: coq/gen/GenCfg.v is regenerated from /repo on every run and C17_gates_additive re-proved over it (fail-closed on unclassifiable gates). Dynamic half: the same battery of histories (core/iters/print) is executed under 7 (quick) / all 16 (thorough) feature sets and each is compared line by line with the model; par_iter() vs iter().", TB + "rustc's meaning of cfg is trusted; tools/translate.py is trusted.", "6.17")
prop("C18", "proof", "Coq: Send/Sync derivation over field types regenerated from the sources + schedule-independence theorem for readers; rustc assert_send_sync and 8-thread runs as oracle", "Theorems C18_* (coq/props/C18.v): auto-trait derivation for Arena/Node/NodeId/NodeEdge and the nine iterators over coq/gen/GenTypes.v (regenerated every run), no unsafe / interior-mutability tokens, and for EVERY schedule each reader's observations equal those of the reader running alone. Partial: memory-model data-race freedom is delegated to safe Rust. Tie: rustc checks assert_send_sync instantiations; 8 threads over one &Arena and par_iter compared with a single thread.", TB + "auto-trait rules (AutoTraits.v) are the modelled meaning of rustc's inference.", "6.18")

def main():
    checks = []
    for pid in sorted(P):
        p = P[pid]
        checks.append({
            "property_id": pid,
            "quick_cmd": "bin/vcheck %s --tier quick" % pid,
            "thorough_cmd": "bin/vcheck %s --tier thorough" % pid,
            "evidence_file": "evidence/%s.json" % pid,
            "replay_cmd_template": "bin/vcheck %s --replay {path}" % pid,
            "engine": "coq+correspondence",
            "level_claimed": {"category": p["cat"], "text": p["text"], "design_ref": "DESIGN.md section " + p["ref"]},
            "level_note": p["note"],
            "technique": p["tech"],
        })
    m = {
        "version": 1,
        "setup_cmd": "bin/setup",
        "hooks": {
            "guard": "indextree_verif",
            "enable": "RUSTFLAGS=\"--cfg indextree_verif\" cargo build --offline (the harness crate /verif/harness depends on /repo/indextree by path)",
            "baseline_off_cmd": "cd /repo && cargo test --workspace --no-fail-fast --offline",
            "source_commits": ["ca02ead"],
            "add_only": True
        },
        "engines": [
            {"name": "coq+correspondence", "path": "bin/vcheck", "serves_properties": sorted(P),
             "kind_free_text": "machine-checked proof in Coq 8.16 about a hand-written executable model (coq/theories), tied to the code on every run by a differential correspondence check (Rust harness vs extracted model) and property monitors extracted from Coq; translator-regenerated inventories for C17/C18"}
        ],
        "checks": checks,
        "not_applicable": [],
        "notes": "Seven genuine defects were found while building the model and repaired by `fix:` commits in /repo (see known_findings.json and DESIGN.md section 7). exit 2 from a check means the tooling failed (no verdict)."
    }
    json.dump(m, open(os.path.join(VERIF, "MANIFEST.json"), "w"), indent=1)

if __name__ == "__main__":
    main()
