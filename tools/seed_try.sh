#!/bin/sh
# usage: tools/seed_try.sh <diff> <ID> [<ID> ...]
# applies the diff to /repo, runs the quick checks of the given properties, and ALWAYS restores /repo.
D="$1"; shift
cd /repo && git status --short | grep -q . && { echo "/repo not clean"; exit 2; }
git -C /repo apply "$D" || exit 2
cd /verif
for P in "$@"; do
  timeout 1800 bin/vcheck "$P" --tier quick 2>/tmp/seed_try_err.log | grep -E "^(OK|VIOLATION|KNOWN)" || { echo "$P: no verdict (rc=$?)"; tail -3 /tmp/seed_try_err.log; }
done
git -C /repo checkout -- .
git -C /repo status --short | head -3
