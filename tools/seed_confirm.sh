#!/bin/sh
# usage: tools/seed_confirm.sh <worktree> <diff> <demo.rs>
# Confirms in a SCRATCH worktree (never /repo): the demo passes on the original source, the existing
# suite passes with the change, the demo fails with the change.  Resets the worktree afterwards.
W="$1"; D="$2"; DEMO="$3"
export CARGO_TARGET_DIR="${W}-target" CARGO_NET_OFFLINE=true
cd "$W" || exit 2
git checkout -q -- . && git clean -fdq -e target
FEAT=""
grep -q "deser\|serde" "$DEMO" && FEAT="--features deser"
grep -q "par_iter" "$DEMO" && FEAT="--features par_iter"
[ -n "$DEMOFLAGS" ] && FEAT="$DEMOFLAGS"
cp "$DEMO" indextree/tests/zz_seed_demo.rs
if cargo test -p indextree --offline $FEAT --test zz_seed_demo >/tmp/seed_demo_orig.log 2>&1; then echo "1. demo passes on original: yes"; else echo "1. demo passes on original: NO"; tail -5 /tmp/seed_demo_orig.log; fi
rm indextree/tests/zz_seed_demo.rs
git apply "$D" || { echo "patch does not apply"; exit 2; }
if cargo test --workspace --offline >/tmp/seed_suite.log 2>&1; then echo "2. existing suite passes with change: yes ($(grep -c '^test .* ok$' /tmp/seed_suite.log) tests ok)"; else echo "2. existing suite passes with change: NO"; grep -E "FAILED|failed|panicked" /tmp/seed_suite.log | head -5; fi
cp "$DEMO" indextree/tests/zz_seed_demo.rs
if cargo test -p indextree --offline $FEAT --test zz_seed_demo >/tmp/seed_demo_mut.log 2>&1; then echo "3. demo fails with change: NO (it passes)"; else echo "3. demo fails with change: yes"; fi
git checkout -q -- . && git clean -fdq -e target
