"""vlib — the machinery behind bin/vcheck (see DESIGN.md section 5).

Every check (1) re-checks the property's theorems (coqc on props/<ID>.v: pinned statements,
Print Assumptions, source audit), (2) rebuilds the Rust harness from /repo's working tree with
the hooks on (debug and release) and the model runner from the extracted Coq model, (3) runs
seeded, relation-aware histories on the implementation and on the model and compares the
property's view of every observation, (4) evaluates the property's own statement (monitors
extracted from coq/theories/Monitor.v) on the states observed on the implementation.
"""
import concurrent.futures, hashlib, json, os, re, shutil, subprocess, sys, time

VERIF = os.path.dirname(os.path.dirname(os.path.abspath(__file__)))
REPO = os.environ.get("VERIF_REPO", "/repo")
CACHE = os.path.join(VERIF, ".cache")
TARGET = os.path.join(CACHE, "harness-target")
COQ = os.path.join(VERIF, "coq")
RUNNER = os.path.join(VERIF, "runner", "runner")
GUARD = "indextree_verif"
NCPU = os.cpu_count() or 4

class ToolError(Exception):
    pass

# ------------------------------------------------------------------------------------------
# property table
# ------------------------------------------------------------------------------------------
# profiles: generator profiles whose histories are run for the property
# view: which observation channels are compared between model and implementation
# level: evidence level category
PROPS = {
    "C01": dict(extra=["enum"], profiles=["core", "alloc", "value", "big"], level="proof", props=["C01", "SRCrel", "SRCops", "SRCalloc", "SRCstep", "INVid", "INVrelations", "INVsiblings_range", "INVnode"]),
    "C02": dict(extra=["enum", "deep"], profiles=["core", "iters"], level="proof", props=["C02", "SRCrel", "SRCops", "SRCalloc", "SRCstep", "SRCtrav", "INVid", "INVrelations", "INVsiblings_range", "INVtraverse"]),
    "C03": dict(extra=["enum"], profiles=["core", "value"], level="proof", props=["C03", "SRCrel", "SRCops", "SRCalloc", "SRCstep", "INVid", "INVrelations", "INVsiblings_range"]),
    "C04": dict(extra=["enum", "genwrap"], profiles=["core", "alloc", "big"], level="proof", props=["C04", "SRCrel", "SRCops", "SRCalloc", "SRCstep", "INVid", "INVrelations", "INVsiblings_range"]),
    "C05": dict(extra=["enum"], profiles=["core", "alloc"], level="proof", props=["C05", "SRCrel", "SRCops", "SRCalloc", "SRCstep", "INVid", "INVrelations", "INVsiblings_range", "INVerror", "INVcargo"]),
    "C06": dict(profiles=["alloc", "core"], level="proof", extra=["stamps", "genwrap"], props=["C06", "SRCalloc", "SRCops", "SRCstep", "INVid", "INVarena", "INVnode"]),
    "C07": dict(extra=["enum", "genwrap"], profiles=["alloc", "core", "big"], level="proof", props=["C07", "SRCalloc", "SRCops", "SRCstep", "INVarena", "INVnode"]),
    "C08": dict(extra=["enum", "genwrap"], profiles=["alloc", "core", "value", "big"], level="proof", props=["C08", "SRCalloc", "SRCops", "SRCstep", "INVarena", "INVnode"]),
    "C09": dict(profiles=["iters"], level="proof", props=["C09", "C09src", "SRCtrav", "INVtraverse"]),
    "C10": dict(profiles=["iters", "core"], level="proof", props=["C10", "C09src", "SRCtrav", "INVtraverse", "INVnode", "INVarena"]),
    "C11": dict(profiles=["core", "alloc"], level="proof", extra=["selfcheck", "genwrap"], props=["C11", "SRCalloc", "INVarena", "INVnode", "INVid"]),
    "C12": dict(extra=["enum", "genwrap"], profiles=["core", "alloc", "big"], level="proof", props=["C12", "SRCrel", "SRCops", "SRCalloc", "SRCstep", "INVid", "INVrelations", "INVsiblings_range"]),
    "C13": dict(profiles=["value", "core"], level="proof", extra=["selfcheck", "determinism", "genwrap"], props=["C13", "SRCalloc", "SRCops", "SRCstep", "INVarena", "INVnode"]),
    "C14": dict(profiles=["print"], level="proof", extra=["printdeep"], props=["C14", "SRCtrav", "SRCprint", "INVdebug_pretty_print", "INVtraverse"]),
    "C15": dict(profiles=[], level="proof", extra=["macro"], props=["C15", "INVmacros_lib", "SRCalloc", "SRCrel", "SRCops"]),
    "C16": dict(profiles=["serde"], level="proof", props=["C16", "INVarena", "INVnode", "INVid"]),
    "C17": dict(profiles=[], level="translation_validation", extra=["features"], props=["C17", "INVlib", "INVcargo"]),
    "C18": dict(profiles=[], level="proof", extra=["selfcheck", "autotraits"], props=["C18", "INVlib", "INVarena", "INVnode", "INVtraverse", "INVdebug_pretty_print"]),
}

# the set of source files is an obligation of every property
for _pid, _spec in PROPS.items():
    _spec["props"] = list(_spec.get("props", [_pid])) + ["INVfiles"]

TRUSTED_BASE = [
    "Coq 8.16.1 kernel (coqc) incl. its VM (vm_compute in Examples and computed lemmas); no native_compute",
    "axioms: none (Print Assumptions of every pinned theorem must read 'Closed under the global context')",
    "hand-written Gallina model coq/theories/*.v, tied to the code by the correspondence check (differential testing, samples)",
    "extraction: Require Extraction + ExtrOcamlBasic only (Extract Inductive for bool, option, unit, prod, list, sumbool, sumor, comparison); no Extract Constant; nat/N/Z/positive stay inductive",
    "OCaml 4.13.1 compiler, runner/driver.ml (parsing/printing glue)",
    "Rust harness /verif/harness (generator, executor, canonical printers), rustc/cargo, add-only hooks behind --cfg indextree_verif",
    "tools/vlib.py (comparison, shrinking, verdict logic), tools/translate.py (C17/C18 inventories, iterator closures)",
    "rs2coq (Rust+syn translator, /verif/rs2coq): regenerates coq/gen/Gen{Stamp,Rel,Alloc,Ops,Trav}.v from the Rust sources on every run; the SRC_* theorems (coq/props/SRC*.v) prove them equal to the hand-written model; the translation rules (DESIGN.md 5.1b) are trusted",
]

# ------------------------------------------------------------------------------------------
# helpers
# ------------------------------------------------------------------------------------------
def sh(cmd, cwd=None, timeout=None, env=None, check=False):
    e = dict(os.environ)
    if env: e.update(env)
    try:
        p = subprocess.run(cmd, cwd=cwd, timeout=timeout, env=e, shell=isinstance(cmd, str),
                           stdout=subprocess.PIPE, stderr=subprocess.STDOUT, text=True, errors="replace")
    except subprocess.TimeoutExpired as ex:
        out = ex.stdout or ""
        if isinstance(out, bytes): out = out.decode(errors="replace")
        return 124, out
    if check and p.returncode != 0:
        raise ToolError("command failed (%d): %s\n%s" % (p.returncode, cmd, p.stdout[-3000:]))
    return p.returncode, p.stdout

def log(*a):
    print(*a, file=sys.stderr, flush=True)

def workdir(pid):
    d = os.path.join(CACHE, "run", pid)
    shutil.rmtree(d, ignore_errors=True)
    os.makedirs(d, exist_ok=True)
    return d

# ------------------------------------------------------------------------------------------
# builds
# ------------------------------------------------------------------------------------------
BUILD_NOTES = []   # what the translator could not read and which Coq files no longer compile (for replay headers)

def build_coq():
    """(re)generate inventories from /repo, then incremental full .vo build of the development."""
    rc, out = sh([sys.executable, os.path.join(VERIF, "tools", "translate.py")], cwd=VERIF, timeout=900)
    if rc != 0:
        raise ToolError("translator failed:\n" + out[-2000:])
    del BUILD_NOTES[:]
    BUILD_NOTES.extend("source translator: " + l.strip() for l in out.splitlines() if l.startswith("rs2coq:") and "0 functions not translated" not in l)
    if not os.path.exists(os.path.join(COQ, "Makefile")):
        sh("coq_makefile -f _CoqProject -o Makefile", cwd=COQ, check=True, timeout=60)
    # make -k: files that do not depend on a broken one are still built.  A target that fails keeps its old
    # .vo on disk; delete it (and, on the next round, whatever depended on it) so nothing stale is ever loaded.
    out = ""
    for _ in range(8):
        rc, out = sh("timeout 3000 make -k -j%d" % NCPU, cwd=COQ, timeout=3100)
        if rc == 0: break
        stale = [t for t in re.findall(r"\*\*\* \[Makefile[^:]*:\d+: (\S+\.vo)\]", out) if os.path.exists(os.path.join(COQ, t))]
        if not stale: break
        for t in stale: os.remove(os.path.join(COQ, t))
        for m in re.finditer(r'File "\./([^"]+)", line (\d+)[^\n]*\n((?:.*\n){1,6}?)(?=\n|make|COQC|File|$)', out):
            note = "coq: %s:%s: %s" % (m.group(1), m.group(2), " ".join(m.group(3).split())[:300])
            if note not in BUILD_NOTES: BUILD_NOTES.append(note)
    return rc == 0, out

def build_runner():
    rc, out = sh("make", cwd=os.path.join(VERIF, "runner"), timeout=600)
    if rc != 0 or not os.path.exists(RUNNER):
        raise ToolError("runner build failed:\n" + out[-3000:])

def harness_bin(release, features="std,macros,deser,par_iter", default_features=False, tag=None):
    """build the harness against /repo's working tree with the hooks on; returns the binary path"""
    hdir = os.path.join(VERIF, "harness")
    lock = os.path.join(hdir, "Cargo.lock")
    if not os.path.exists(lock):
        shutil.copy(os.path.join(REPO, "Cargo.lock"), lock)
    tdir = TARGET if tag is None else os.path.join(CACHE, "harness-target-" + tag)
    cmd = ["cargo", "build", "--offline", "--no-default-features", "--features", features]
    if features == "":
        cmd = ["cargo", "build", "--offline", "--no-default-features"]
    if release: cmd.append("--release")
    env = {"RUSTFLAGS": "--cfg " + GUARD, "CARGO_TARGET_DIR": tdir, "CARGO_NET_OFFLINE": "true"}
    rc, out = sh(cmd, cwd=hdir, env=env, timeout=1800)
    if rc != 0:
        raise ToolError("harness does not build against %s with --cfg %s (features %r):\n%s" % (REPO, GUARD, features, out[-4000:]))
    return os.path.join(tdir, "release" if release else "debug", "vharness")

# ------------------------------------------------------------------------------------------
# proofs
# ------------------------------------------------------------------------------------------
FORBIDDEN = re.compile(r"\b(Admitted|admit|Axiom|Axioms|Parameter|Parameters|Conjecture|Conjectures|Hypothesis|Hypotheses|Variable|Variables)\b|Unset\s+Guard|bypass_check|type-in-type|impredicative-set|Admit\s+Obligations|native_compute")

def audit_sources():
    """no admitted proofs, no declared axioms, no disabled checks anywhere in the development.
    Variable/Hypothesis are allowed only inside a Section (checked textually)."""
    bad = []
    for root, _, files in os.walk(COQ):
        for f in files:
            if not f.endswith(".v"): continue
            path = os.path.join(root, f)
            depth = 0
            incomment = 0
            for ln, line in enumerate(open(path, errors="replace"), 1):
                # strip comments (nested) crudely
                s = ""
                i = 0
                while i < len(line):
                    if line.startswith("(*", i): incomment += 1; i += 2; continue
                    if line.startswith("*)", i) and incomment > 0: incomment -= 1; i += 2; continue
                    if incomment == 0: s += line[i]
                    i += 1
                if re.match(r"\s*Section\b", s): depth += 1
                if re.match(r"\s*End\b", s) and depth > 0: depth -= 1
                m = FORBIDDEN.search(s)
                if m:
                    w = m.group(0)
                    if w in ("Variable", "Variables", "Hypothesis", "Hypotheses") and depth > 0:
                        continue
                    bad.append("%s:%d: %s" % (os.path.relpath(path, VERIF), ln, s.strip()[:120]))
    return bad

def run_coqchk(pid):
    """independent re-check of the compiled property file and everything it depends on (thorough tier)"""
    rc, out = sh("timeout 2400 coqchk -silent -o -Q theories IT -Q proofs IT.proofs -Q props IT.props -Q gen IT.gen %s" % " ".join("IT.props." + f for f in PROPS[pid].get("props", [pid])), cwd=COQ, timeout=2500)
    ok = (rc == 0 and "Axioms: <none>" in out and "type-in-type: <none>" in out
          and "unsafe (co)fixpoints: <none>" in out and "positivity is assumed: <none>" in out)
    return ok, out[-1200:]

def check_proofs(pid):
    """compile the property's theorem files (props/<ID>.v and, where listed, source-tie files): every
    theorem must come with a closed Print Assumptions"""
    files = PROPS[pid].get("props", [pid])
    res = dict(file=", ".join("coq/props/%s.v" % f for f in files), obligations=0, discharged=0, theorems=[], assumptions=[], ok=True, log="")
    for f in files:
        path = os.path.join(COQ, "props", f + ".v")
        if not os.path.exists(path):
            res["ok"] = False; res["log"] += "no property file %s\n" % f
            continue
        src = open(path).read()
        thms = re.findall(r"^\s*(?:Theorem|Corollary|Lemma)\s+(\w+)", src, re.M)
        res["theorems"] += thms
        res["obligations"] += len(thms)
        rc, out = sh("timeout 600 coqc -q -Q theories IT -Q proofs IT.proofs -Q props IT.props -Q gen IT.gen props/%s.v" % f, cwd=COQ, timeout=700)
        res["log"] += out[-2000:]
        if rc != 0:
            res["ok"] = False
            continue
        closed = out.count("Closed under the global context")
        axioms = re.findall(r"Axioms:\s*\n((?:.+\n)+?)(?=\n|\Z)", out)
        res["assumptions"] += ["Closed under the global context"] * closed + [a.strip() for a in axioms]
        npa = len(re.findall(r"^\s*Print Assumptions\s+\w+", src, re.M))
        if axioms:
            res["ok"] = False; res["log"] += "\nnon-closed assumptions in %s: %r" % (f, axioms)
            continue
        if npa < len(thms) or closed < npa:
            res["ok"] = False
            res["log"] += "\nPrint Assumptions missing for some theorem of %s (%d theorems, %d Print Assumptions, %d closed)" % (f, len(thms), npa, closed)
            continue
        res["discharged"] += len(thms)
    return res

# ------------------------------------------------------------------------------------------
# views: what each property compares between model and implementation
# ------------------------------------------------------------------------------------------
def parse_a(line):
    parts = line.split(" | ")
    head = parts[0].split(" ")
    slots = [p.split(" ") for p in parts[1:]]
    return head, slots

def a_links(line):
    head, slots = parse_a(line)
    return "a " + " | ".join(("L" if not s[0].startswith("-") else "R") + " " + " ".join(s[2:]) for s in slots if len(s) == 7)

def a_alloc(line):
    head, slots = parse_a(line)
    return " ".join(head) + " | " + " | ".join(s[0] + " " + (s[1] if s[1].startswith("F") else "D") for s in slots if len(s) == 7)

def a_pay(line):
    head, slots = parse_a(line)
    return "a " + " | ".join(s[1] if s[1].startswith("D") else "-" for s in slots if len(s) == 7)

def a_dead(line):
    head, slots = parse_a(line)
    return "a " + " | ".join(" ".join(s[2:]) if s[0].startswith("-") else "L" for s in slots if len(s) == 7)

def view(pid, cmd, line):
    """canonical projection of one observation line for property pid, or None if irrelevant"""
    k = line[:1]
    if pid == "C01": return a_links(line) if k == "a" else None
    if pid == "C02": return a_links(line) if k == "a" else (line if k in "ridy" else None)
    if pid == "C03": return a_links(line) if k == "a" else (line if k == "e" else None)
    if pid == "C04": return (a_links(line) + " ## " + a_pay(line)) if k == "a" else None      # "nothing else changes": links and payloads
    if pid == "C05": return line if k in "ra" else None
    if pid == "C06": return line if (k == "m" or line.startswith("r id")) else None
    if pid == "C07": return a_alloc(line) if k == "a" else (line if (k == "f" or line.startswith("r id")) else None)
    if pid == "C08": return a_pay(line) if k == "a" else (line if k == "x" else None)
    if pid == "C09": return a_links(line) if k == "a" else (line if k in "idy" else None)     # iterators read the links
    if pid == "C10": return a_links(line) if k == "a" else (line if k in "dy" else None)
    if pid == "C11": return line if k == "l" else None
    if pid == "C12": return a_dead(line) if k == "a" else (line if k == "r" else None)
    if pid == "C13": return line
    if pid == "C14": return line if k == "p" else None
    if pid == "C16": return line if k in "sea" else None
    return line

# ------------------------------------------------------------------------------------------
# one batch: generate+execute on the implementation, replay on the model, monitor
# ------------------------------------------------------------------------------------------
def split_histories(ops_lines):
    hists, cur = [], None
    for l in ops_lines:
        if l.startswith("hist "):
            if cur is not None: hists.append(cur)
            cur = [l]
        elif cur is not None:
            cur.append(l)
    if cur is not None: hists.append(cur)
    return hists

def run_batch(pid, wd, hbin, build, profile, seed, hists, length, gen_timeout=600):
    """returns dict with diffs, mon lines, hang info, stats"""
    tag = "%s.%s.%d" % (profile, build, seed)
    ops, obs, mod, mon, st = [os.path.join(wd, tag + e) for e in (".ops", ".obs", ".model", ".mon", ".json")]
    r = dict(tag=tag, profile=profile, build=build, seed=seed, hists=hists, ops=ops, obs=obs, diffs=[], mon=[], hang=None, stats={}, stat={}, lines=0)
    rc, out = sh([hbin, "gen", "--seed", str(seed), "--hists", str(hists), "--len", str(length), "--profile", profile,
                  "--ops", ops, "--obs", obs, "--stats", st], timeout=gen_timeout)
    if rc == 124 or rc < 0 or rc > 2:
        r["hang"] = "harness did not finish (rc=%d): the last command of the ops file did not return" % rc if rc == 124 else "harness crashed (rc=%d): %s" % (rc, out[-300:])
    elif rc != 0:
        raise ToolError("harness gen failed rc=%d: %s" % (rc, out[-2000:]))
    return analyse(pid, r, ops, obs, mod, mon, st, build)

def analyse(pid, r, ops, obs, mod, mon, st, build):
    dbg = "1" if build == "debug" else "0"
    rc, out = sh([RUNNER, "--ops", ops, "--obs", mod, "--dbg", dbg], timeout=1200)
    if rc != 0:
        raise ToolError("model runner failed: " + out[-2000:])
    ops_l = [l.rstrip("\n") for l in open(ops, errors="replace") if l.strip() and not l.startswith("#")]
    obs_l = [l.rstrip("\n") for l in open(obs, errors="replace")]
    mod_l = [l.rstrip("\n") for l in open(mod, errors="replace")]
    # very long single histories (generation wrap): once implementation and model have parted, the monitor is run
    # on the prefix up to shortly after the first difference (a diverged arena can grow without bound, and the
    # monitors are quadratic in the number of slots)
    mops, mobs = ops, obs
    if len(ops_l) > 20000:
        # per history: once implementation and model have parted, keep 400 more commands and drop the rest of THAT history
        starts = [i for i, c in enumerate(ops_l) if c.startswith("hist ")] + [len(ops_l)]
        keep, cut_any = [], False
        for a_, b_ in zip(starts, starts[1:]):
            f = next((i for i in range(a_, min(b_, len(obs_l), len(mod_l))) if obs_l[i] != mod_l[i]), None)
            if f is not None and f + 400 < b_:
                keep.append((a_, f + 400, True)); cut_any = True
            else:
                keep.append((a_, b_, False))
        if cut_any:
            mops, mobs = ops + ".cut", obs + ".cut"
            kops, kobs = [], []
            for a_, b_, was_cut in keep:
                for i in range(a_, b_):
                    kops.append(ops_l[i])
                    if i < len(obs_l): kobs.append(obs_l[i])
                if was_cut:
                    kops.append("end"); kobs.append("x")
            open(mops, "w").write("\n".join(kops) + "\n")
            open(mobs, "w").write("\n".join(kobs) + "\n")
    rc, out = sh([RUNNER, "--ops", mops, "--monitor", mobs, "--out", mon], timeout=1200)
    if rc == 124:
        open(mon, "a").write("")
        r["hang"] = (r.get("hang") or "") + " property monitor did not finish within 1200 s on the implementation's observations"
    elif rc != 0:
        raise ToolError("monitor failed: " + out[-2000:])
    r["lines"] = len(obs_l)
    hist = -1
    first_by_hist = {}
    for i, cmd in enumerate(ops_l):
        if cmd.startswith("hist "): hist = int(cmd.split()[1])
        o = obs_l[i] if i < len(obs_l) else "<no observation: the call did not return>"
        m = mod_l[i] if i < len(mod_l) else "<none>"
        if o == m: continue
        vo, vm = view(pid, cmd, o) if i < len(obs_l) else o, view(pid, cmd, m)
        if vo is None and vm is None: continue
        if vo != vm and hist not in first_by_hist:
            first_by_hist[hist] = dict(hist=hist, line=i, cmd=cmd, impl=o[:400], model=m[:400])
    r["diffs"] = list(first_by_hist.values())
    if r["hang"] and not r["diffs"]:
        r["diffs"] = [dict(hist=hist, line=len(obs_l), cmd=ops_l[len(obs_l)] if len(obs_l) < len(ops_l) else "?", impl="<did not return>", model=mod_l[len(obs_l)] if len(obs_l) < len(mod_l) else "?")]
    for l in open(mon, errors="replace"):
        if l.startswith("MON "):
            m = re.match(r"MON (\S+) hist=(-?\d+) step=(\d+) cmd=\[(.*?)\] (.*)", l.rstrip("\n"))
            if m: r["mon"].append(dict(prop=m.group(1), hist=int(m.group(2)), step=int(m.group(3)), cmd=m.group(4), msg=m.group(5)))
        elif l.startswith("STAT "):
            _, p, c = l.split()
            r["stat"][p] = int(c)
    try:
        r["stats"] = json.load(open(st))
    except Exception:
        r["stats"] = {}
    # distinct non-trivial histories of this batch (hash of the op text)
    hs = set()
    for h in split_histories(ops_l):
        muts = [c for c in h if not c.startswith(("q", "hist", "drops", "end", "rend"))]
        if len(muts) >= 5:
            hs.add(hashlib.sha1("\n".join(muts).encode()).hexdigest())
    r["distinct"] = hs
    r["sample"] = split_histories(ops_l)[0][:40] if ops_l else []
    return r

def history_ops(ops_path, hist):
    ops_l = [l.rstrip("\n") for l in open(ops_path, errors="replace")]
    for h in split_histories(ops_l):
        if h and h[0].split()[1] == str(hist):
            if not h[-1].startswith("end"): h = h + ["end"]
            return h
    return []

# ------------------------------------------------------------------------------------------
# replay files, shrinking
# ------------------------------------------------------------------------------------------
def run_ops_once(pid, wd, hbin, build, ops_lines, name):
    """run one ops list on impl + model + monitor; returns (failing?, details)"""
    ops = os.path.join(wd, name + ".ops"); obs = os.path.join(wd, name + ".obs")
    open(ops, "w").write("\n".join(ops_lines) + "\n")
    # a single call that does not return is cut by the harness's own watchdog; the process limit only has to scale
    # with the size of the file (the thorough enumeration replays millions of lines)
    rc, out = sh([hbin, "run", "--ops", ops, "--obs", obs], timeout=max(60, 60 + len(ops_lines) // 2000))
    r = dict(tag=name, profile="replay", build=build, seed=0, hists=1, ops=ops, obs=obs, diffs=[], mon=[], hang=None, stats={}, stat={}, lines=0)
    if rc == 124: r["hang"] = "a call did not return"
    elif rc != 0 and rc != 1: r["hang"] = "harness crashed rc=%d" % rc
    if not os.path.exists(obs): open(obs, "w").write("")
    return analyse(pid, r, ops, obs, os.path.join(wd, name + ".model"), os.path.join(wd, name + ".mon"), os.path.join(wd, name + ".json"), build)

def fails_for(pid, r, want_mon):
    if want_mon:
        return any(m["prop"] == pid for m in r["mon"]) or bool(r["hang"])
    return bool(r["diffs"]) or bool(r["hang"])

def shrink(pid, wd, hbin, build, ops_lines, want_mon, budget=200):
    """greedy delta debugging on whole commands; keeps a history that still fails the same way"""
    cur = list(ops_lines)
    # 1. truncate after the first failing step
    n = 0
    def still(cand):
        nonlocal n
        n += 1
        if n > budget: return False
        c = cand if cand[-1].startswith("end") else cand + ["end"]
        try:
            return fails_for(pid, run_ops_once(pid, wd, hbin, build, c, "shrink"), want_mon)
        except ToolError:
            return False
    lo, hi = 1, len(cur)
    while lo < hi and n < budget:
        mid = (lo + hi) // 2
        if still(cur[:mid]): hi = mid
        else: lo = mid + 1
    cand = cur[:hi]
    if still(cand): cur = cand
    # 2. drop observation-only commands and then single non-issuing commands
    i = len(cur) - 1
    while i > 0 and n < budget:
        c = cur[i]
        if c.startswith(("new", "appv", "hist")):
            i -= 1; continue
        cand = cur[:i] + cur[i + 1:]
        if still(cand): cur = cand
        i -= 1
    if not cur[-1].startswith("end"): cur.append("end")
    return cur

def write_replay(pid, header, ops_lines):
    d = os.path.join(VERIF, "replays"); os.makedirs(d, exist_ok=True)
    path = os.path.join(d, "%s-%d.ops" % (pid, int(time.time() * 1000) % 10**10))
    with open(path, "w") as f:
        for h in header: f.write("# " + h + "\n")
        f.write("\n".join(ops_lines) + "\n")
    return path

def replay(pid, path):
    ensure_tools()
    wd = workdir(pid + "-replay")
    ops_lines = [l.rstrip("\n") for l in open(path) if l.strip() and not l.startswith("#")]
    bad = False
    for build in ("debug", "release"):
        hbin = harness_bin(build == "release")
        r = run_ops_once(pid, wd, hbin, build, ops_lines, "replay-" + build)
        for m in r["mon"]:
            if m["prop"] == pid:
                print("[%s] MONITOR %s step=%d cmd=[%s] %s" % (build, pid, m["step"], m["cmd"], m["msg"])); bad = True
        for d in r["diffs"]:
            print("[%s] MODEL!=IMPL at line %d cmd=[%s]\n   impl : %s\n   model: %s" % (build, d["line"], d["cmd"], d["impl"], d["model"])); bad = True
        if r["hang"]: print("[%s] %s" % (build, r["hang"])); bad = True
    if bad:
        print("VIOLATION property=%s replay=%s" % (pid, path)); return 1
    print("replay passes: property %s holds on this history" % pid); return 0

# ------------------------------------------------------------------------------------------
# known findings
# ------------------------------------------------------------------------------------------
def known_findings(pid):
    try:
        kf = json.load(open(os.path.join(VERIF, "known_findings.json")))
    except Exception:
        return []
    return [f for f in kf.get("findings", []) if f.get("property") == pid]

def is_known(pid, m, findings):
    for f in findings:
        if re.search(f.get("cmd_regex", ".*"), m.get("cmd", "")) and re.search(f.get("msg_regex", ".*"), m.get("msg", "")):
            return f
    return None

# ------------------------------------------------------------------------------------------
# main check
# ------------------------------------------------------------------------------------------
_tools_ready = False
def ensure_tools():
    global _tools_ready
    if _tools_ready: return
    ok, out = build_coq()
    if not ok:
        # a broken development is handled per property (props/<ID>.v will not compile); the runner
        # needs the extracted model, which may be stale: say so
        log("coq build did not complete:\n" + out[-1500:])
    build_runner()
    _tools_ready = True
    return ok

def extraction_crosscheck(wd, results):
    """the kernel itself (vm_compute in coqc) re-evaluates [run] on the first histories of one debug and
    one release batch and must reach the arenas the extracted OCaml code reached"""
    n = 0
    for build in ("debug", "release"):
        r = next((r for r in results if r["build"] == build and r["profile"] in ("core", "alloc", "iters", "value", "print", "serde")), None)
        if r is None: continue
        vf = os.path.join(wd, "emit_%s.v" % build)
        rc, out = sh([RUNNER, "--ops", r["ops"], "--emit-coq", vf, "--dbg", "1" if build == "debug" else "0"], timeout=300)
        if rc != 0: raise ToolError("runner --emit-coq failed: " + out[-500:])
        rc, out = sh("timeout 600 coqc -q -Q %s IT -o %s %s" % (os.path.join(COQ, "theories"), os.path.join(wd, "emit_%s.vo" % build), vf), cwd=wd, timeout=700)
        if rc != 0:
            raise ToolError("extraction cross-check failed: coqc's own evaluation of the model disagrees with the extracted runner (%s):\n%s" % (vf, out[-1500:]))
        n += open(vf).read().count("Example emit_")
    return n

def plan(pid, tier, seed):
    spec = PROPS[pid]
    hists, length, nseeds = (1200, 40, 1) if tier == "quick" else (6000, 45, 6)
    batches = []
    for prof in spec["profiles"]:
        for b in ("debug", "release"):
            for s in range(nseeds):
                h = hists if prof != "iters" else max(60, hists // 4)
                if prof == "print": h = max(60, hists // 3)
                if prof == "big": h = max(80, hists // 8)
                batches.append((prof, b, seed * 1000 + s * 17 + (0 if b == "debug" else 1), h, length))
    return batches

def check(pid, tier, seed):
    t0 = time.time()
    import vextra
    try:
        coq_ok = ensure_tools()
        wd = workdir(pid)
        proof = check_proofs(pid)
        if tier == "thorough" and proof["ok"]:
            ok, log_ = run_coqchk(pid)
            proof["coqchk"] = "coqchk -o: Axioms <none>, no type-in-type, no unsafe fixpoints, no assumed positivity" if ok else "coqchk FAILED: " + log_
            if not ok:
                proof["ok"] = False; proof["log"] += "\ncoqchk: " + log_
        audit = audit_sources()
        try:
            bins = {"debug": harness_bin(False), "release": harness_bin(True)}
        except ToolError as e:
            # /repo does not build with the harness.  That is no verdict by itself -- unless the property's own
            # obligations are already broken (then the property is no longer shown to hold), or it is rustc itself
            # that refuses the harness's Send/Sync assertions (C18's type-level clause, decided by the compiler).
            msg = str(e)
            sendsync = pid == "C18" and re.search(r"cannot be (shared|sent) between threads safely|assert_send_sync", msg) is not None
            if not (sendsync or not proof["ok"] or audit):
                raise
            hdr = []
            if sendsync:
                hdr.append("rustc rejects the harness's assert_send_sync::<Arena<T>/Node<T>/NodeId/iterators> instantiations: a type is no longer Send + Sync")
            if not proof["ok"]:
                hdr.append("theorems of %s no longer check: %s" % (proof["file"], " | ".join(l for l in (proof["log"] or "").splitlines() if l.strip() and "Closed under" not in l)[-600:]))
                for n in BUILD_NOTES[:8]: hdr.append(n)
            hdr.append("the harness does not build against /repo (so no history could be run): " + " ".join(msg.split())[-500:])
            path = write_replay(pid, hdr, ["# no failing input found"])
            for h in hdr: log("  " + h)
            write_evidence(pid, tier, seed, proof, audit, [], {"summary": {}, "violations": []}, time.time() - t0, 1, coq_ok)
            print("VIOLATION property=%s replay=%s no-failing-input-found" % (pid, path))
            return 1
        results = []
        batches = plan(pid, tier, seed)
        with concurrent.futures.ThreadPoolExecutor(max_workers=NCPU) as ex:
            futs = [ex.submit(run_batch, pid, wd, bins[b], b, prof, s, h, ln) for (prof, b, s, h, ln) in batches]
            for f in futs: results.append(f.result())
        extra = vextra.run_extras(pid, tier, seed, wd, bins)
        xcheck = extraction_crosscheck(wd, results)
    except ToolError as e:
        log("vcheck: tooling failure, no verdict for %s:\n%s" % (pid, e))
        return 2

    findings = known_findings(pid)
    mon_fail, known_hits = [], []
    for r in results:
        for m in r["mon"]:
            if m["prop"] != pid: continue
            k = is_known(pid, m, findings)
            (known_hits if k else mon_fail).append((r, m, k))
    diffs = [(r, d) for r in results for d in r["diffs"]]
    hangs = [r for r in results if r["hang"]]
    proof_broken = not proof["ok"]
    if audit: proof_broken = True

    for (r, m, k) in known_hits[:5]:
        print("KNOWN-FINDING: property=%s %s" % (pid, k.get("what", m["msg"])))

    violation = None
    ev = extra.get("violations") or []
    hard = [v for v in ev if not v.get("nofail", False)]     # extras that come with a concrete failing input
    if hard:
        v = hard[0]
        violation = dict(kind="extra", header=v["header"], ops=v.get("ops", ["# (no op history: see header)"]), nofail=False)
    elif mon_fail:
        r, m, _ = mon_fail[0]
        ops_l = history_ops(r["ops"], m["hist"])
        small = shrink(pid, wd, bins[r["build"]], r["build"], ops_l, True)
        violation = dict(kind="monitor", header=[
            "property %s violated on the implementation (%s build)" % (pid, r["build"]),
            "monitor: %s" % m["msg"], "at command [%s] (step %d of history %d, profile %s, seed %d)" % (m["cmd"], m["step"], m["hist"], r["profile"], r["seed"]),
            "replay: bin/vcheck %s --replay <this file>" % pid], ops=small, nofail=False)
    elif diffs or hangs or proof_broken or ev:
        # something no longer checks: search for a concrete failing input with the monitors
        found = None
        try:
            # (a) random continuations of the states where model and implementation first diverge
            for (r, d) in diffs[:4]:
                if found: break
                hops = history_ops(r["ops"], d["hist"])
                # cut after the diverging command (line index is global: recompute within the history)
                cut = None
                all_ops = [l.rstrip("\n") for l in open(r["ops"], errors="replace") if l.strip() and not l.startswith("#")]
                start = None
                for i, c in enumerate(all_ops):
                    if c == "hist %d" % d["hist"]: start = i
                if start is not None:
                    cut = d["line"] - start + 1
                pre = [c for c in hops[:cut] if not c.startswith("end")] if cut else hops[:-1]
                pf = os.path.join(wd, "prefix.%s.%d.ops" % (r["build"], d["hist"]))
                open(pf, "w").write("\n".join(pre) + "\n")
                for prof in list(dict.fromkeys((PROPS[pid]["profiles"] or []) + ["core", "alloc"])):
                    tag = "cont.%s.%s.%d" % (prof, r["build"], d["hist"])
                    ops2, obs2, st2 = [os.path.join(wd, tag + e) for e in (".ops", ".obs", ".json")]
                    rc, out = sh([bins[r["build"]], "gen", "--seed", str(seed * 31 + d["hist"]), "--hists", "400", "--len", "30", "--profile", prof,
                                  "--prefix", pf, "--ops", ops2, "--obs", obs2, "--stats", st2], timeout=90)
                    r2 = dict(tag=tag, profile=prof + "+prefix", build=r["build"], seed=seed, hists=400, ops=ops2, obs=obs2, diffs=[], mon=[], hang=None, stats={}, stat={}, lines=0)
                    if rc == 124: r2["hang"] = "a continuation did not return"
                    if not os.path.exists(obs2): continue
                    r2 = analyse(pid, r2, ops2, obs2, os.path.join(wd, tag + ".model"), os.path.join(wd, tag + ".mon"), st2, r["build"])
                    hit = [m for m in r2["mon"] if m["prop"] == pid and not is_known(pid, m, findings)]
                    if hit: found = (r2, hit[0]); break
            for s in ([] if found else range(1, 5)):
                for prof in (PROPS[pid]["profiles"] or ["core"]):
                    for b in ("debug", "release"):
                        r2 = run_batch(pid, wd, bins[b], b, prof, seed * 7919 + s * 31, 1500, 45)
                        hit = [m for m in r2["mon"] if m["prop"] == pid and not is_known(pid, m, findings)]
                        if hit: found = (r2, hit[0]); break
                    if found: break
                if found: break
        except ToolError:
            pass
        if found:
            r, m = found
            small = shrink(pid, wd, bins[r["build"]], r["build"], history_ops(r["ops"], m["hist"]), True)
            violation = dict(kind="monitor", header=["property %s violated on the implementation (%s build)" % (pid, r["build"]),
                             "monitor: %s" % m["msg"], "at command [%s]" % m["cmd"]], ops=small, nofail=False)
        else:
            hdr = []
            ops_l = ["# no failing input found"]
            if ev:
                hdr += ev[0]["header"]
                ops_l = ev[0].get("ops", ops_l)
            if proof_broken:
                hdr.append("theorems of %s no longer check: %s" % (proof["file"], " | ".join(l for l in (proof["log"] or "").splitlines() if l.strip() and "Closed under" not in l)[-600:]))
                for n in BUILD_NOTES[:8]: hdr.append(n)
                for a in audit[:5]: hdr.append("audit: " + a)
            if diffs and not ev:
                r, d = diffs[0]
                hdr += ["correspondence broken on the %s view (%s build, profile %s, seed %d): model and implementation differ" % (pid, r["build"], r["profile"], r["seed"]),
                        "first differing observation: command [%s] (history %d)" % (d["cmd"], d["hist"]),
                        "  implementation: %s" % d["impl"], "  model         : %s" % d["model"],
                        "the property's own monitor did not fail on any explored history"]
                ops_l = shrink(pid, wd, bins[r["build"]], r["build"], history_ops(r["ops"], d["hist"]), False)
            elif hangs and not ev:
                r = hangs[0]
                hdr.append("implementation did not return: " + r["hang"])
            violation = dict(kind="correspondence", header=hdr, ops=ops_l, nofail=True)

    wall = time.time() - t0
    extra.setdefault("summary", {})["extraction_crosscheck"] = "%d histories re-evaluated by coqc (vm_compute) and compared with the extracted runner's final arenas" % xcheck
    write_evidence(pid, tier, seed, proof, audit, results, extra, wall, 1 if violation else 0, coq_ok)
    if violation:
        path = write_replay(pid, violation["header"], violation["ops"])
        for h in violation["header"]: log("  " + h)
        print("VIOLATION property=%s replay=%s%s" % (pid, path, " no-failing-input-found" if violation["nofail"] else ""))
        return 1
    print("OK property=%s tier=%s theorems=%d/%d histories=%d wall=%.1fs" % (
        pid, tier, proof["discharged"], proof["obligations"], sum(r["hists"] for r in results), wall))
    return 0

def write_evidence(pid, tier, seed, proof, audit, results, extra, wall, violations, coq_ok):
    spec = PROPS[pid]
    distinct = set()
    for r in results: distinct |= r.get("distinct", set())
    evals = sum(r["stat"].get(pid, 0) for r in results) + extra.get("evaluations", 0)
    opk, rel, outc = {}, {}, {}
    for r in results:
        for k, v in (r["stats"].get("op_kinds") or r["stats"].get("ops") or {}).items(): opk[k] = opk.get(k, 0) + v
        for k, v in (r["stats"].get("relation_classes") or {}).items(): rel[k] = rel.get(k, 0) + v
        for k, v in (r["stats"].get("outcomes") or {}).items(): outc[k] = outc.get(k, 0) + v
    samples = []
    for r in results[:2]:
        if r.get("sample"): samples.append({"profile": r["profile"], "build": r["build"], "seed": r["seed"], "ops": r["sample"]})
    samples += extra.get("samples", [])
    if proof["theorems"]:
        samples.append({"obligations": proof["theorems"]})
    level = spec["level"]
    if level == "proof" and proof["obligations"] == 0:
        level = "exploration"
    cov = {
        "evaluations": max(evals, 1),
        "distinct_nontrivial": len(distinct) + extra.get("distinct", 0),
        "rule": "seeded relation-aware histories (harness `gen`, profiles %s, debug+release); a case is one history; non-trivial = at least 5 mutating commands; distinct = distinct command text. evaluations = number of times the property's monitor clause was evaluated on implementation states. %s" % (spec["profiles"], extra.get("rule", "")),
        "samples": samples or [{"note": "no history-based samples for this property; see extras"}],
        "obligations": proof["obligations"],
        "discharged": proof["discharged"],
        "checker_cmd": "coqc -Q theories IT -Q proofs IT.proofs -Q props IT.props -Q gen IT.gen props/%s.v (after make -C coq); grep audit for Admitted/Axiom/...; Print Assumptions per theorem" % pid,
        "trusted_base": TRUSTED_BASE + ["Print Assumptions: " + ("; ".join(sorted(set(proof["assumptions"]))) or "n/a")],
        "theorems": proof["theorems"],
        "coqchk": proof.get("coqchk", "not run in this tier"),
        "histories": sum(r["hists"] for r in results),
        "observation_lines_compared": sum(r["lines"] for r in results),
        "model_impl_disagreements": sum(len(r["diffs"]) for r in results),
        "monitor_failures": sum(1 for r in results for m in r["mon"] if m["prop"] == pid),
        "builds": sorted(set(r["build"] for r in results)),
        "op_histogram": opk, "relation_class_histogram": rel, "outcome_histogram": outc,
        "audit_findings": audit,
        "coq_build_ok": bool(coq_ok),
        "extras": extra.get("summary", {}),
    }
    if level != "proof":
        for k in ("obligations", "discharged"):
            if cov[k] == 0: del cov[k]
    ev = {"property_id": pid, "tier": tier, "seed": seed, "level": level, "coverage": cov,
          "assumptions": ["the hand-written Gallina model is tied to the Rust text in two ways: (a) 56 functions (mutating core, allocation, iterator machines, the printer's line-state machine) are regenerated from the sources on every run by rs2coq and proved equal to / refined by the model (SRC_* obligations listed above; trusted: the translation rules, DESIGN.md 5.1b); every other function body and every item declaration is pinned verbatim (INV* obligations); (b) the correspondence run recorded here (validation by differential testing, not a proof)",
                          "usize arithmetic is unbounded in the model (fewer than 2^64 nodes)",
                          "refinement theorems are stated for release semantics (dbg=false); proofs/DebugProofs.v (debug_agrees) transfers them to debug builds; both profiles are run by the correspondence check"],
          "wall_s": round(wall, 2), "violations": violations}
    os.makedirs(os.path.join(VERIF, "evidence"), exist_ok=True)
    json.dump(ev, open(os.path.join(VERIF, "evidence", pid + ".json"), "w"), indent=1)
