#!/usr/bin/env python3
"""translate.py — regenerates, from /repo's CURRENT sources, the declarative facts that the
theorems for C17 (feature gates) and C18 (auto traits, unsafe / interior mutability) are proved
about:   coq/gen/GenTypes.v   and   coq/gen/GenCfg.v.

It is a tokenizer plus a bracket-matching item scanner for exactly the constructs it needs.
Anything it cannot classify becomes TUnknown / KUnknown, on which the theorems fail (fail-closed).
This translator is part of the trusted base.
"""
import os, re, sys

REPO = os.environ.get("VERIF_REPO", "/repo")
SRC = os.path.join(REPO, "indextree", "src")
OUT = os.path.join(os.path.dirname(os.path.dirname(os.path.abspath(__file__))), "coq", "gen")

def strip_comments(s):
    out, i, n = [], 0, len(s)
    while i < n:
        if s.startswith("//", i):
            j = s.find("\n", i)
            j = n if j < 0 else j
            out.append(" " * (j - i)); i = j
        elif s.startswith("/*", i):
            j = s.find("*/", i + 2)
            j = n if j < 0 else j + 2
            out.append(re.sub(r"[^\n]", " ", s[i:j])); i = j
        elif s[i] == '"':
            j = i + 1
            while j < n and s[j] != '"':
                j += 2 if s[j] == "\\" else 1
            out.append(s[i:j + 1]); i = j + 1
        else:
            out.append(s[i]); i += 1
    return "".join(out)

def coq_str(s):
    return '"' + s.replace('"', '""') + '"'

# ----------------------------------------------------------------------------------------
# type expressions
# ----------------------------------------------------------------------------------------
def split_top(s, sep=","):
    parts, depth, cur = [], 0, ""
    for ch in s:
        if ch in "<([{": depth += 1
        if ch in ">)]}": depth -= 1
        if ch == sep and depth == 0:
            parts.append(cur); cur = ""
        else:
            cur += ch
    if cur.strip(): parts.append(cur)
    return [p.strip() for p in parts]

PRIMS = {"usize": "TUsize", "u64": "TUsize", "u32": "TUsize", "u16": "TUsize", "u8": "TUsize", "isize": "TUsize",
         "i16": "TI16", "i32": "TI16", "i64": "TI16", "i8": "TI16", "bool": "TBool", "char": "TBool", "str": "TStr"}

def parse_ty(t, tyvars):
    t = t.strip()
    if t == "()": return "TUnit"
    m = re.match(r"^&\s*('\w+\s+)?mut\s+(.*)$", t, re.S)
    if m: return "(TMutRef %s)" % parse_ty(m.group(2), tyvars)
    m = re.match(r"^&\s*('\w+\s*)?(.*)$", t, re.S)
    if m and t.startswith("&"): return "(TRef %s)" % parse_ty(m.group(2), tyvars)
    if re.match(r"^\*\s*(const|mut)\b", t): return "(TRawPtr %s)" % parse_ty(re.sub(r"^\*\s*(const|mut)\s*", "", t), tyvars)
    if re.match(r"^(unsafe\s+)?(extern\s+\"\w+\"\s+)?fn\s*\(", t): return "TFn"
    m = re.match(r"^([\w:]+)\s*(<(.*)>)?$", t, re.S)
    if not m: return "(TUnknown %s)" % coq_str(t)
    path, args = m.group(1), m.group(3)
    name = path.split("::")[-1]
    targs = [a for a in split_top(args)] if args else []
    targs = [a for a in targs if not a.startswith("'")]
    if not targs:
        if name in tyvars: return "(TVar %s)" % coq_str(name)
        if name in PRIMS: return PRIMS[name]
        if name == "NonZeroUsize": return "TNonZeroUsize"
        if name == "Formatter": return "TFormatter"
        if name == "Self": return "(TUnknown \"Self\")"
        return "(TAdt %s [])" % coq_str(name)
    if name == "Option" and len(targs) == 1: return "(TOption %s)" % parse_ty(targs[0], tyvars)
    if name == "Vec" and len(targs) == 1: return "(TVec %s)" % parse_ty(targs[0], tyvars)
    if name == "Formatter": return "TFormatter"
    return "(TAdt %s [%s])" % (coq_str(name), "; ".join(parse_ty(a, tyvars) for a in targs))

def match_close(s, i, open_, close_):
    depth = 0
    for j in range(i, len(s)):
        if s[j] == open_: depth += 1
        elif s[j] == close_:
            depth -= 1
            if depth == 0: return j
    return len(s) - 1

def generics_of(g):
    if not g: return []
    return [p.split(":")[0].strip() for p in split_top(g[1:-1]) if not p.strip().startswith("'")]

def scan_types(fname, s, defs):
    # structs
    for m in re.finditer(r"\bstruct\s+(\w+)\s*(<[^>{(;]*>)?\s*([({;])", s):
        name, gen, opener = m.group(1), m.group(2), m.group(3)
        if name.startswith("$"): continue
        tv = generics_of(gen)
        fields = []
        if opener == "{":
            j = match_close(s, m.end() - 1, "{", "}")
            body = s[m.end():j]
            body = re.sub(r"#\[[^\]]*\]", "", body)
            for f in split_top(body):
                f = re.sub(r"^\s*pub(\s*\([^)]*\))?\s*", "", f.strip())
                if not f: continue
                if ":" in f:
                    fn, ft = f.split(":", 1)
                    fields.append((fn.strip(), parse_ty(ft, tv)))
                else:
                    fields.append(("?", "(TUnknown %s)" % coq_str(f)))
        elif opener == "(":
            j = match_close(s, m.end() - 1, "(", ")")
            for k, f in enumerate(split_top(s[m.end():j])):
                f = re.sub(r"^\s*pub(\s*\([^)]*\))?\s*", "", f.strip())
                if f: fields.append((str(k), parse_ty(f, tv)))
        defs[name] = (fname, tv, fields)
    # enums
    for m in re.finditer(r"\benum\s+(\w+)\s*(<[^>{]*>)?\s*\{", s):
        name, gen = m.group(1), m.group(2)
        tv = generics_of(gen)
        j = match_close(s, m.end() - 1, "{", "}")
        body = re.sub(r"#\[[^\]]*\]", "", s[m.end():j])
        fields = []
        for v in split_top(body):
            v = v.strip()
            if not v: continue
            vm = re.match(r"^(\w+)\s*(\((.*)\)|\{(.*)\})?\s*(=.*)?$", v, re.S)
            if not vm:
                fields.append((v[:20], "(TUnknown %s)" % coq_str(v))); continue
            if vm.group(3) is not None:
                for k, f in enumerate(split_top(vm.group(3))):
                    if f: fields.append(("%s.%d" % (vm.group(1), k), parse_ty(f, tv)))
            elif vm.group(4) is not None:
                for f in split_top(vm.group(4)):
                    if ":" in f:
                        fn, ft = f.split(":", 1); fields.append(("%s.%s" % (vm.group(1), fn.strip()), parse_ty(ft, tv)))
        defs[name] = (fname, tv, fields)

def scan_iterator_macro(fname, s, defs):
    """the nine sibling/ancestor iterators are produced by `new_iterator!`; the struct it declares is
       pub struct $name<'a, T>($inner<'a, T>);  with $inner = Iter unless a next_back is given."""
    m = re.search(r"macro_rules!\s*new_iterator\s*\{", s)
    if not m: return
    j = match_close(s, m.end() - 1, "{", "}")
    body = s[m.end():j]
    shape_ok = re.search(r"pub\s+struct\s+\$name\s*<\s*'a\s*,\s*T\s*>\s*\(\s*\$inner\s*<\s*'a\s*,\s*T\s*>\s*\)\s*;", body) is not None
    arms_ok = ("inner = Iter" in re.sub(r"\s+", " ", body)) and ("inner = DoubleEndedIter" in re.sub(r"\s+", " ", body))
    for im in re.finditer(r"\bnew_iterator!\s*\(", s):
        if im.start() < j and im.start() > m.start(): continue      # recursive calls inside the macro itself
        k = match_close(s, im.end() - 1, "(", ")")
        args = s[im.end():k]
        args_noattr = re.sub(r"#\[(?:[^\[\]]|\[[^\]]*\])*\]", "", args, flags=re.S)
        nm = re.match(r"\s*(\w+)\s*,", args_noattr)
        if not nm: continue
        name = nm.group(1)
        inner = "DoubleEndedIter" if re.search(r"\bnext_back\s*=", args_noattr) else "Iter"
        if shape_ok and arms_ok:
            defs[name] = (fname, ["T"], [("0", "(TAdt %s [(TVar \"T\")])" % coq_str(inner))])
        else:
            defs[name] = (fname, ["T"], [("0", "(TUnknown \"new_iterator! has an unexpected shape\")")])

# ----------------------------------------------------------------------------------------
# iterator step closures (new_iterator! invocations)
# ----------------------------------------------------------------------------------------
FIELDS = {"parent": "Fparent", "previous_sibling": "Fprev", "next_sibling": "Fnext", "first_child": "Ffirst", "last_child": "Flast"}

def link_expr(src):
    """|v| v.FIELD   or   |v| v.FIELD.or(v.FIELD)   ->  a term of IterModel.lexpr; anything else: LUnknown"""
    t = re.sub(r"\s+", "", src)
    m = re.match(r"^\|(\w+)\|(.*)$", t)
    if not m: return "(LUnknown %s)" % coq_str(src.strip()[:60])
    v, body = m.group(1), m.group(2)
    body = re.sub(r"\.(%s)\(\)" % "|".join(FIELDS), r".\1", body)      # read-only accessors name the same fields
    m1 = re.match(r"^%s\.(\w+)$" % v, body)
    if m1 and m1.group(1) in FIELDS: return "(LField %s)" % FIELDS[m1.group(1)]
    m2 = re.match(r"^%s\.(\w+)\.or\(%s\.(\w+)\)$" % (v, v), body)
    if m2 and m2.group(1) in FIELDS and m2.group(2) in FIELDS:
        return "(LOr %s %s)" % (FIELDS[m2.group(1)], FIELDS[m2.group(2)])
    return "(LUnknown %s)" % coq_str(src.strip()[:60])

def start_expr(src):
    """the `new =` closure of Children / ReverseChildren: which link(s) of the start node seed the iterator"""
    t = re.sub(r"\s+", "", src)
    m = re.match(r"^\|(\w+),(\w+)\|DoubleEndedIter::new\(\1,\1\[\2\]\.(\w+),\1\[\2\]\.(\w+)\)$", t)
    if m and m.group(3) in FIELDS and m.group(4) in FIELDS:
        return "(SBoth %s %s)" % (FIELDS[m.group(3)], FIELDS[m.group(4)])
    m = re.match(r"^\|(\w+),(\w+)\|Iter::new\(\1,\1\[\2\]\.(\w+)\)$", t)
    if m and m.group(3) in FIELDS:
        return "(SOne %s)" % FIELDS[m.group(3)]
    if re.match(r"^\|(\w+),(\w+)\|\{", t):
        return "SBlock"                                   # a block: modelled by hand (de_new), checked dynamically
    return "(SUnknown %s)" % coq_str(src.strip()[:60])

def scan_iterators(s, iters):
    m = re.search(r"macro_rules!\s*new_iterator\s*\{", s)
    if not m: return
    j = match_close(s, m.end() - 1, "{", "}")
    for im in re.finditer(r"\bnew_iterator!\s*\(", s):
        if m.start() < im.start() < j: continue
        k = match_close(s, im.end() - 1, "(", ")")
        args = re.sub(r"#\[(?:[^\[\]]|\[[^\]]*\])*\]", "", s[im.end():k], flags=re.S)
        # key = value pairs at bracket depth 0 (closure parameter lists `|a, b|` contain commas)
        depth, marks = 0, []
        for mm in re.finditer(r"[(\[{<]|[)\]}>]|\b(new|next_back|next|inner)\s*=(?!=)", args):
            t = mm.group(0)
            if t in "([{": depth += 1
            elif t in ")]}": depth -= 1
            elif t in "<>": pass
            elif depth == 0: marks.append((mm.start(), mm.end(), mm.group(1)))
        name = args.split(",", 1)[0].strip()
        kv = {}
        for i, (st, en, key) in enumerate(marks):
            end = marks[i + 1][0] if i + 1 < len(marks) else len(args)
            kv[key] = args[en:end].strip().rstrip(",").strip()
        iters.append((name, start_expr(kv["new"]) if "new" in kv else "SSelf",
                      link_expr(kv["next"]) if "next" in kv else "(LUnknown \"missing\")",
                      ("(Some %s)" % link_expr(kv["next_back"])) if "next_back" in kv else "None"))

# ----------------------------------------------------------------------------------------
# cfg gates
# ----------------------------------------------------------------------------------------
def classify_item(s, pos, depth_ctx):
    """syntactic kind of the item that starts at s[pos:] (after its attributes)"""
    rest = s[pos:]
    rest = re.sub(r"^(\s*#\[(?:[^\[\]]|\[[^\]]*\])*\]\s*)+", "", rest, flags=re.S)
    rest = rest.lstrip()
    head = rest[:200]
    if re.match(r"(pub(\s*\([^)]*\))?\s+)?use\b", head): return "KUse", ""
    if re.match(r"extern\s+crate\b", head): return "KExternCrate", ""
    m = re.match(r"(unsafe\s+)?impl\b\s*(<[^{]*?>)?\s*([^{]*)\{", rest, re.S)
    if m:
        sig = m.group(3)
        if re.search(r"\bfor\b", sig): return "KImplTrait", re.sub(r"\s+", " ", sig.strip())[:60]
        j = match_close(rest, m.end() - 1, "{", "}")
        body = rest[m.end():j]
        # every item of the impl body must be a `pub fn`
        items, d, cur = [], 0, ""
        for ch in body:
            if ch == "{": d += 1
            if d == 0: cur += ch
            if ch == "}":
                d -= 1
                if d == 0: items.append(cur); cur = ""
        if cur.strip(): items.append(cur)
        ok = all(re.search(r"\bpub\s+fn\b", re.sub(r"#\[(?:[^\[\]]|\[[^\]]*\])*\]", "", it, flags=re.S)) for it in items if it.strip())
        return ("KInherentImplNewFns" if ok and items else "KUnknown"), re.sub(r"\s+", " ", sig.strip())[:60]
    if re.match(r"(pub(\s*\([^)]*\))?\s+)?(const\s+)?(unsafe\s+)?fn\b", head):
        return ("KFnInImpl" if depth_ctx > 0 else "KFn"), re.match(r".*?fn\s+(\w+)", head, re.S).group(1)
    if re.match(r"(pub(\s*\([^)]*\))?\s+)?mod\b", head): return "KMod", ""
    if re.match(r"(pub(\s*\([^)]*\))?\s+)?(struct|enum|type|trait|const|static)\b", head): return "KTypeItem", ""
    if re.match(r"(pub(\s*\([^)]*\))?\s+)?\w+\s*:", head): return "KField", ""
    return "KUnknown", re.sub(r"\s+", " ", head[:40])

def scan_cfg(fname, s, gates):
    depth_at = []
    d = 0
    for ch in s:
        depth_at.append(d)
        if ch == "{": d += 1
        elif ch == "}": d -= 1
    for m in re.finditer(r"#(!?)\[\s*(cfg|cfg_attr)\s*\(", s):
        k = match_close(s, m.end() - 1, "(", ")")
        inner = s[m.end():k]
        close = s.find("]", k)
        line = s.count("\n", 0, m.start()) + 1
        if m.group(2) == "cfg":
            pred = re.sub(r"\s+", " ", inner.strip())
            if m.group(1) == "!":
                kind, detail = "KCrateCfg", ""
            else:
                kind, detail = classify_item(s, close + 1, depth_at[m.start()])
        else:
            parts = split_top(inner)
            pred = re.sub(r"\s+", " ", parts[0])
            attr = ", ".join(parts[1:])
            if m.group(1) == "!":
                kind = "KCrateAttr" if re.match(r"^no_std$", attr.strip()) else "KUnknown"
            else:
                kind = "KDeriveAttr" if re.match(r"^derive\s*\(", attr.strip()) else "KUnknown"
            detail = re.sub(r"\s+", " ", attr)[:60]
        gates.append((fname, line, pred, kind, detail))
    for m in re.finditer(r"\bcfg!\s*\(", s):
        k = match_close(s, m.end() - 1, "(", ")")
        pred = re.sub(r"\s+", " ", s[m.end():k].strip())
        line = s.count("\n", 0, m.start()) + 1
        gates.append((fname, line, pred, "KExprMacro", ""))

def main():
    os.makedirs(OUT, exist_ok=True)
    defs, gates, iters = {}, [], []
    scan = dict(forbid_unsafe=False, unsafe_tokens=0, interior=[])
    files = sorted(f for f in os.listdir(SRC) if f.endswith(".rs"))
    for f in files:
        raw = open(os.path.join(SRC, f), errors="replace").read()
        s = strip_comments(raw)
        # drop #[cfg(test)] modules and the verification hooks from the inventories
        s_nt = re.sub(r"#\[cfg\(test\)\]\s*mod\s+\w+\s*\{", lambda m: "@@TESTMOD{", s)
        while "@@TESTMOD{" in s_nt:
            i = s_nt.index("@@TESTMOD{")
            j = match_close(s_nt, i + len("@@TESTMOD"), "{", "}")
            s_nt = s_nt[:i] + re.sub(r"[^\n]", " ", s_nt[i:j + 1]) + s_nt[j + 1:]
        s_nt = re.sub(r"#\[cfg\(test\)\]", " " * 12, s_nt)
        if f == "lib.rs" and re.search(r"#!\[forbid\(unsafe_code\)\]", s): scan["forbid_unsafe"] = True
        scan["unsafe_tokens"] += len(re.findall(r"\bunsafe\b", s_nt.replace("forbid(unsafe_code)", "")))
        for w in re.findall(r"\b(Cell|RefCell|UnsafeCell|OnceCell|Atomic\w+|Mutex|RwLock|thread_local|static\s+mut|Rc|LazyCell|Once)\b", s_nt):
            scan["interior"].append((f, w))
        scan_types(f, s_nt, defs)
        scan_iterator_macro(f, s_nt, defs)
        if f == "traverse.rs": scan_iterators(s_nt, iters)
        scan_cfg(f, s_nt, gates)
    cargo = open(os.path.join(REPO, "indextree", "Cargo.toml")).read()
    feats = []
    fm = re.search(r"\[features\](.*?)(\n\[|\Z)", cargo, re.S)
    if fm:
        for l in fm.group(1).splitlines():
            m = re.match(r"\s*([\w-]+)\s*=\s*\[(.*)\]", l)
            if m: feats.append((m.group(1), [x.strip().strip('"') for x in m.group(2).split(",") if x.strip()]))

    with open(os.path.join(OUT, "GenTypes.v"), "w") as o:
        o.write("(* GENERATED by tools/translate.py from %s — do not edit *)\n" % SRC)
        o.write("From IT Require Import AutoTraits.\nOpen Scope string_scope.\n\n")
        o.write("Definition env : list adt := [\n")
        rows = []
        for name in sorted(defs):
            fname, tv, fields = defs[name]
            rows.append("  mkAdt %s [%s]\n    [%s]" % (coq_str(name), "; ".join(coq_str(t) for t in tv),
                        ";\n     ".join("(%s, %s)" % (coq_str(fn), ft) for fn, ft in fields)))
        o.write(";\n".join(rows) + "\n].\n\n")
        o.write("Definition forbid_unsafe_code : bool := %s.\n" % ("true" if scan["forbid_unsafe"] else "false"))
        o.write("Definition unsafe_tokens : nat := %d.\n" % scan["unsafe_tokens"])
        o.write("Definition interior_mutability_tokens : list (string * string) := [%s].\n" %
                "; ".join("(%s, %s)" % (coq_str(a), coq_str(b)) for a, b in scan["interior"]))
    with open(os.path.join(OUT, "GenCfg.v"), "w") as o:
        o.write("(* GENERATED by tools/translate.py from %s — do not edit *)\n" % SRC)
        o.write("From IT Require Import CfgModel.\nOpen Scope string_scope.\n\n")
        o.write("Definition gates : list gate := [\n")
        o.write(";\n".join("  mkGate %s %d %s %s %s" % (coq_str(f), ln, coq_str(pred), kind, coq_str(detail))
                           for (f, ln, pred, kind, detail) in gates))
        o.write("\n].\n\nDefinition features : list (string * list string) := [\n")
        o.write(";\n".join("  (%s, [%s])" % (coq_str(n), "; ".join(coq_str(d) for d in deps)) for n, deps in feats))
        o.write("\n].\n")
    with open(os.path.join(OUT, "GenIters.v"), "w") as o:
        o.write("(* GENERATED by tools/translate.py from %s/traverse.rs — do not edit *)\n" % SRC)
        o.write("From IT Require Import IterModel.\nOpen Scope string_scope.\n\n")
        o.write("Definition iters : list iterdef := [\n")
        o.write(";\n".join("  mkIter %s %s %s %s" % (coq_str(n), st, nx, nb) for (n, st, nx, nb) in iters))
        o.write("\n].\n")
    return 0

def run_rs2coq():
    """(re)build rs2coq (Rust, syn) and regenerate coq/gen/Gen{Stamp,Rel,Alloc,Ops,Trav}.v from the sources"""
    import shutil, subprocess
    verif = os.path.dirname(os.path.dirname(os.path.abspath(__file__)))
    cdir = os.path.join(verif, "rs2coq")
    lock = os.path.join(cdir, "Cargo.lock")
    if not os.path.exists(lock):
        shutil.copy(os.path.join(REPO, "Cargo.lock"), lock)
    tdir = os.path.join(verif, ".cache", "rs2coq-target")
    env = dict(os.environ, CARGO_TARGET_DIR=tdir, CARGO_NET_OFFLINE="true")
    p = subprocess.run(["cargo", "build", "--offline", "--release"], cwd=cdir, env=env, stdout=subprocess.PIPE, stderr=subprocess.STDOUT, text=True)
    if p.returncode != 0:
        sys.stderr.write("rs2coq does not build:\n" + p.stdout[-3000:])
        return 3
    p = subprocess.run([os.path.join(tdir, "release", "rs2coq"), SRC, OUT], stdout=subprocess.PIPE, stderr=subprocess.STDOUT, text=True)
    sys.stderr.write(p.stdout)
    return 0 if p.returncode == 0 else 3

if __name__ == "__main__":
    rc = main()
    sys.exit(rc or run_rs2coq())
