"""vextra — property-specific parts of the correspondence check that are not plain seeded histories:
exhaustive stamp tables and generation-counter wrap (C06), implementation self-checks that need real
references / threads (C11, C13, C18), determinism (C13), feature-set builds (C17), tree! (C15)."""
import json, os, re, subprocess, sys, time, hashlib
import vlib
from vlib import sh, ToolError, RUNNER, VERIF, CACHE

def _viol(header, ops=None, nofail=False):
    return dict(header=header, ops=ops or ["# (no op history)"], nofail=nofail)

# ------------------------------------------------------------------------------------------
def stamps(pid, tier, seed, wd, bins, out):
    """all 65536 inputs of the four NodeStamp functions, debug and release, model vs implementation"""
    n = 0
    for build, dbg in (("debug", "1"), ("release", "0")):
        fi, fm = os.path.join(wd, "stamps.impl." + build), os.path.join(wd, "stamps.model." + build)
        rc, o = sh([bins[build], "stamps", "--out", fi], timeout=300)
        if rc != 0: raise ToolError("harness stamps failed: " + o[-500:])
        rc, o = sh([RUNNER, "--stamps", fm, "--dbg", dbg], timeout=300)
        if rc != 0: raise ToolError("runner stamps failed: " + o[-500:])
        li, lm = open(fi).read().splitlines(), open(fm).read().splitlines()
        n += len(li)
        for a, b in zip(li, lm):
            if a != b:
                # is it a violation of the property itself? check the stamp laws directly on the implementation's table
                out["violations"].append(_viol([
                    "NodeStamp functions differ between model and implementation (%s build)" % build,
                    "columns: stamp is_removed as_removed reuseable reuse(new,returned); p = panic",
                    "implementation: " + a, "model         : " + b], nofail=not stamp_law_broken(li)))
                break
        if len(li) != 65536: out["violations"].append(_viol(["stamp table incomplete: %d lines" % len(li)], nofail=True))
        law = stamp_law_broken(li)
        if law:
            out["violations"].insert(0, _viol(["generation-stamp law broken on the implementation (%s build): %s" % (build, law)]))
    out["evaluations"] += n
    out["distinct"] += 65536
    out["summary"]["stamps"] = "4 functions x 65536 inputs x 2 builds compared (exhaustive)"
    out["samples"].append({"stamps_table_rows": ["32766 0 -32767 ...", "32767 0 -32768 ...", "-32768 1 p 0 p"]})

def retirement_history():
    """second history: two slots are worn out (32767 reuse cycles each) while bystanders stay live; then
    (1) the first is retired while other slots are already free, more slots are freed afterwards and
    allocations drain the free list (no slot may be lost, the arena may not grow while a reusable slot
    exists); (2) the second, with a parent and a child, is removed as the middle of a removed subtree
    (its links must be cleared although its slot is retired)."""
    ops = ["hist 1"]
    h = [0]       # next handle
    v = [1]
    def new():
        ops.append("new %d" % v[0]); v[0] += 1; h[0] += 1; return h[0] - 1
    by = [new() for _ in range(7)]                   # bystanders, handles 0..6
    ops += ["qa", "qr"]
    worn = []
    for _ in range(2):
        cur = None
        for c in range(32767):
            x = new()
            ops.append("rem %d" % x)
        cur = new()                                  # live node with generation 32767
        ops += ["qa", "qr", "qf"]
        worn.append(cur)
    A, B = worn
    # scenario 1
    for st in ("rem %d" % by[0], "rem %d" % by[1], "rem %d" % A, "rem %d" % by[2]):
        ops += [st, "qa", "qr", "qf", "drops"]
    for _ in range(5):
        new(); ops += ["qa", "qr", "qf"]
    # scenario 2: by[3] -> B -> fresh child ; by[3] also gets by[4] as a later child
    ops += ["app %d %d" % (by[3], B), "qa", "appv %d %d" % (B, v[0]), "qa", "app %d %d" % (by[3], by[4]), "qa", "qr"]
    v[0] += 1; h[0] += 1
    ops += ["qi %d" % by[3], "rst %d" % by[3], "qa", "qr", "qf", "drops"]
    for _ in range(4):
        new(); ops += ["qa", "qr", "qf"]
    # scenario 3: an arena that holds retired slots is copied and cleared; the cleared arena must behave like a new one
    ops += ["fork", "qeq", "clear", "qa", "qf"]
    for _ in range(3):
        ops.append("new %d" % v[0]); v[0] += 1
        ops += ["qa", "qr", "qf"]
    ops += ["swap", "qa", "clear", "qa", "new %d" % v[0], "qa"]
    ops += ["ql", "end"]
    return ops

def stamp_law_broken(rows):
    """the property's own statement on the table: a live stamp s becomes a removed one; if reusable,
    reuse gives a stamp strictly greater than s (so no id is reissued); the last one is retired"""
    t = {}
    for r in rows:
        c = r.split()
        t[int(c[0])] = c
    for s in range(0, 32768):
        ar = t[s][2]
        if ar == "p": return "as_removed(%d) panics" % s
        ar = int(ar)
        if ar >= 0: return "as_removed(%d) = %d is not a removed stamp" % (s, ar)
        if t[ar][1] != "1": return "is_removed(%d) false" % ar
        reusable = t[ar][3]
        if reusable == "p": return "reuseable(%d) panics" % ar
        if reusable == "1":
            ru = t[ar][4]
            if ru == "p": return "reuse(%d) panics" % ar
            new = int(ru.split(",")[0])
            if new <= s: return "slot generation does not increase: %d -> %d -> %d" % (s, ar, new)
            if t[new][1] != "0": return "reuse gives a removed stamp"
    return None

# ------------------------------------------------------------------------------------------
def genwrap(pid, tier, seed, wd, bins, out):
    """one slot recycled across the whole range of its generation counter and beyond its end,
    interleaved with a second slot; is_removed of EVERY id ever issued is queried at the end"""
    cycles = 32768 + (300 if tier == "quick" else 3000)
    ops = ["hist 0", "new 1", "qa", "qr"]      # handle 0: a bystander node that stays live
    h = 1
    v = 2
    for c in range(cycles):
        ops.append("new %d" % v); v += 1
        near = (c % 4096 == 0) or (32760 <= c <= 32775) or c >= cycles - 3
        if near: ops += ["qa", "qr", "qf"]
        ops.append("rem %d" % h); h += 1
        if near: ops += ["qa", "qr", "qf", "drops"]
        if c % 9000 == 17:                      # interleave another slot's life cycle
            ops.append("new %d" % v); v += 1; ops.append("qa")
            ops.append("rem %d" % h); h += 1; ops.append("qa")
    ops += ["new %d" % v, "qa", "qr", "ql", "end"]
    ops += retirement_history()
    for build in ("release", "debug"):
        r = vlib.run_ops_once(pid, wd, bins[build], build, ops, "genwrap-" + build)
        out["evaluations"] += r["stat"].get(pid, 0)
        for m in r["mon"]:
            if m["prop"] == pid:
                out["violations"].append(_viol(["generation wrap history (%d remove/re-create cycles of one slot), %s build" % (cycles, build),
                                                "monitor: " + m["msg"], "at command [%s] step %d" % (m["cmd"], m["step"])], ops)); break
        if r["diffs"] and not out["violations"]:
            d = r["diffs"][0]
            out["violations"].append(_viol(["generation wrap history: model and implementation differ (%s build) at [%s]" % (build, d["cmd"]),
                                            "impl : " + d["impl"][:300], "model: " + d["model"][:300]], ops, nofail=True))
        if r["hang"]: out["violations"].append(_viol(["generation wrap history: " + r["hang"]], ops))
    out["distinct"] += 1
    out["summary"]["genwrap"] = "%d reuse cycles of one slot (past the end of the i16 generation counter), is_removed of all %d issued ids checked" % (cycles, h)
    out["samples"].append({"genwrap_ops_head": ops[:12]})

# ------------------------------------------------------------------------------------------
def selfcheck(pid, tier, seed, wd, bins, out):
    hists, length = (150, 40) if tier == "quick" else (1500, 45)
    for build in ("debug", "release"):
        f = os.path.join(wd, "self." + build)
        rc, o = sh([bins[build], "selfcheck", "--seed", str(seed), "--hists", str(hists), "--len", str(length), "--out", f], timeout=1800)
        if rc == 124:
            out["violations"].append(_viol(["selfcheck did not finish (%s build): a call did not return" % build])); continue
        if rc != 0: raise ToolError("selfcheck failed rc=%d: %s" % (rc, o[-800:]))
        for l in open(f, errors="replace"):
            if l.startswith("SELF " + pid):
                out["violations"].append(_viol(["implementation self-check failed (%s build): %s" % (build, l.strip())])); break
            if l.startswith("SUMMARY "):
                try:
                    s = json.loads(l[len("SUMMARY "):])
                    out["evaluations"] += s.get("checks", {}).get(pid, 0)
                    out["summary"]["selfcheck_" + build] = s
                    if pid == "C18" and not s.get("send_sync_static", False):
                        out["violations"].append(_viol(["assert_send_sync instantiations missing from the harness build"], nofail=True))
                except Exception:
                    pass
    out["distinct"] += hists
    out["rule"] += " selfcheck: implementation-only checks on %d further histories per build (real references, clones, foreign arenas, 8 reader threads, par_iter)." % hists

def deep(pid, tier, seed, wd, bins, out):
    """C02 'every call returns' on very tall / wide trees with a small thread stack (a recursion whose depth follows
    the tree height overflows the stack and aborts the process)"""
    depth = 200000 if tier == "quick" else 1000000
    for build in ("debug", "release"):
        rc, o = sh([bins[build], "deep", "--depth", str(depth), "--stack", str(256 * 1024)], timeout=900)
        phases = [l for l in o.splitlines() if l.startswith("DEEP phase")]
        last = phases[-1][len("DEEP phase "):] if phases else "?"
        if rc == 124:
            out["violations"].append(_viol(["a call did not return within 900 s on a tree of %d nodes (%s build); last phase started: %s" % (depth, build, last)]))
        elif rc != 0 or "DEEP done" not in o:
            out["violations"].append(_viol(["the process died (rc=%d, e.g. stack overflow on a 256 KiB stack) on a tree of %d nodes (%s build) during: %s" % (rc, depth, build, last),
                                            "reproduce: %s deep --depth %d --stack %d" % (bins[build], depth, 256 * 1024)]))
        elif "DEEP BAD" in o:
            out["violations"].append(_viol(["wrong counts on a very tall / wide tree (%s build): %s" % (build, [l for l in o.splitlines() if l.startswith("DEEP result")])]))
        out["evaluations"] += len(phases)
    out["summary"]["deep"] = "path, comb and star trees of %d nodes on a 256 KiB stack: all iterators, clone, checked_append refusal, detach/append, remove, remove_subtree, drop (debug and release)" % depth

def determinism(pid, tier, seed, wd, bins, out):
    """the same call history on two fresh arenas (two processes) gives identical observations"""
    for build in ("debug", "release"):
        outs = []
        for k in (1, 2):
            ops, obs = os.path.join(wd, "det%d.%s.ops" % (k, build)), os.path.join(wd, "det%d.%s.obs" % (k, build))
            rc, o = sh([bins[build], "gen", "--seed", str(seed + 77), "--hists", "150", "--len", "40", "--profile", "value", "--ops", ops, "--obs", obs], timeout=600)
            if rc != 0: raise ToolError("gen failed: " + o[-500:])
            outs.append((open(ops).read(), open(obs).read()))
        out["evaluations"] += outs[0][1].count("\n")
        if outs[0] != outs[1]:
            out["violations"].append(_viol(["two runs of the same seeded call history differ (%s build)" % build]))
    out["summary"]["determinism"] = "same seeded histories executed twice per build: observations identical"

# ------------------------------------------------------------------------------------------
FEATURE_SETS_QUICK = ["", "std", "std,macros", "std,deser", "std,par_iter", "deser,par_iter", "std,macros,deser,par_iter"]

def all_feature_sets():
    fs = ["std", "macros", "deser", "par_iter"]
    res = []
    for m in range(16):
        res.append(",".join(f for i, f in enumerate(fs) if m >> i & 1))
    return res

def features(pid, tier, seed, wd, bins, out):
    """the same battery of call sequences under every feature combination; all must agree with the
    one model (hence with each other); par_iter() == iter()"""
    sets = FEATURE_SETS_QUICK if tier == "quick" else all_feature_sets()
    hists = 120 if tier == "quick" else 600
    # the battery is generated once with the full-featured debug build
    bat = {}
    for prof in ("core", "iters", "print"):
        ops, obs = os.path.join(wd, "bat.%s.ops" % prof), os.path.join(wd, "bat.%s.obs" % prof)
        rc, o = sh([bins["debug"], "gen", "--seed", str(seed + 5), "--hists", str(hists if prof == "core" else hists // 3), "--len", "40", "--profile", prof, "--ops", ops, "--obs", obs], timeout=900)
        if rc != 0: raise ToolError("gen failed: " + o[-500:])
        mod = os.path.join(wd, "bat.%s.model" % prof)
        rc, o = sh([RUNNER, "--ops", ops, "--obs", mod, "--dbg", "1"], timeout=900)
        if rc != 0: raise ToolError("runner failed: " + o[-500:])
        bat[prof] = (ops, obs, mod)
    # a slot recycled 300 times: generation numbering must not depend on the feature set
    wrap = ["hist 0", "new 1", "qa"]
    for c in range(300):
        wrap += ["new %d" % (c + 2), "rem %d" % (c + 1)] + (["qa", "qr", "qf"] if c % 16 == 0 or 120 <= c <= 135 or 250 <= c <= 260 else [])
    wrap += ["qa", "qr", "ql", "end"]
    wops, wobs, wmod = os.path.join(wd, "bat.wrap.ops"), os.path.join(wd, "bat.wrap.obs"), os.path.join(wd, "bat.wrap.model")
    open(wops, "w").write("\n".join(wrap) + "\n")
    rc, o = sh([bins["debug"], "run", "--ops", wops, "--obs", wobs], timeout=120)
    rc, o = sh([RUNNER, "--ops", wops, "--obs", wmod, "--dbg", "1"], timeout=120)
    bat["wrap"] = (wops, wobs, wmod)
    # deep printer shapes (more than 16 nested last children with multi-line payloads): same text in every build
    dops, dobs, dmod = os.path.join(wd, "bat.printdeep.ops"), os.path.join(wd, "bat.printdeep.obs"), os.path.join(wd, "bat.printdeep.model")
    open(dops, "w").write("\n".join(printdeep_ops(tier)[0]) + "\n")
    rc, o = sh([bins["debug"], "run", "--ops", dops, "--obs", dobs], timeout=300)
    rc, o = sh([RUNNER, "--ops", dops, "--obs", dmod, "--dbg", "1"], timeout=300)
    bat["printdeep"] = (dops, dobs, dmod)
    mis_ops, mis_obs = os.path.join(wd, "bat.misuse.ops"), os.path.join(wd, "bat.misuse.obs")
    rc, o = sh([bins["debug"], "gen", "--seed", str(seed + 9), "--hists", str(hists), "--len", "40", "--profile", "misuse", "--ops", mis_ops, "--obs", mis_obs], timeout=300)
    have_misuse = (rc == 0)
    import concurrent.futures
    def one(fs):
        tag = "f_" + (fs.replace(",", "_") or "nostd")
        hb = vlib.harness_bin(False, features=fs, tag=tag)
        res = []
        for prof, (ops, obs, mod) in bat.items():
            o2 = os.path.join(wd, "bat.%s.%s.obs" % (prof, tag))
            rc, o = sh([hb, "run", "--ops", ops, "--obs", o2], timeout=120)
            if rc == 124 or rc < 0:
                done = len(open(o2).read().splitlines()) if os.path.exists(o2) else 0
                cmds = [l for l in open(ops).read().splitlines() if l.strip() and not l.startswith("#")]
                res.append((fs, prof, "a call did not return under this feature set: command #%d [%s] (the same call returns under the default features)" % (done, cmds[done] if done < len(cmds) else "?"))); continue
            if rc != 0: raise ToolError("run failed under features %r: %s" % (fs, o[-500:]))
            a, b = open(o2).read().splitlines(), open(mod).read().splitlines()
            for i, (x, y) in enumerate(zip(a, b)):
                if x != y and not x.startswith("s "):
                    res.append((fs, prof, "line %d: features[%s] gives [%s], model/default gives [%s]" % (i, fs, x[:200], y[:200]))); break
            res.append((fs, prof, None, len(a)))
        if have_misuse:
            o3 = os.path.join(wd, "bat.misuse.%s.obs" % tag)
            rc, o = sh([hb, "run", "--ops", mis_ops, "--obs", o3], timeout=60)
            if os.path.exists(o3):          # compare whatever was produced, even if a later call hung
                a, b = open(o3).read().splitlines(), open(mis_obs).read().splitlines()
                for i, (x, y) in enumerate(zip(a, b)):
                    if x != y and not x.startswith("s ") and not y.startswith("s "):
                        res.append((fs, "misuse", "line %d: features[%s] gives [%s], the full-featured build gives [%s] (battery with stale / removed ids)" % (i, fs, x[:200], y[:200]))); break
        # par_iter == iter and thread checks under this feature set
        f = os.path.join(wd, "self." + tag)
        rc, o = sh([hb, "selfcheck", "--seed", str(seed), "--hists", "30", "--len", "30", "--out", f], timeout=900)
        if rc == 0:
            for l in open(f, errors="replace"):
                if l.startswith("SELF "): res.append((fs, "selfcheck", l.strip()))
        return res
    with concurrent.futures.ThreadPoolExecutor(max_workers=4) as ex:
        for res in ex.map(one, sets):
            for r in res:
                if len(r) == 4: out["evaluations"] += r[3]
                elif r[2]:
                    out["violations"].append(_viol(["core behaviour differs under feature set [%s] (profile %s): %s" % r], open(mis_ops if r[1] == "misuse" else bat.get(r[1], bat["core"])[0]).read().splitlines()[:400]))
    out["distinct"] += len(sets)
    out["summary"]["feature_sets"] = sets
    out["rule"] += " features: the same battery (profiles core/iters/print) executed under feature sets %s; each compared line by line with the model." % sets
    out["samples"].append({"feature_sets": sets})
    out["programs"] = len(sets)

# ------------------------------------------------------------------------------------------
def enum_scope(pid, tier, seed, wd, bins, out):
    """exhaustive small scopes: from a set of seed shapes (prefixes of generated histories) EVERY
    call of the structural API with EVERY ordered pair of usable ids (live, or removed and not yet
    recycled) is executed as its own history (thorough: every sequence of two such calls on the
    smallest shapes), on implementation and model, with the monitors"""
    nshapes, plen = (10, 12) if tier == "quick" else (60, 14)
    base_ops, base_obs = os.path.join(wd, "enum.base.ops"), os.path.join(wd, "enum.base.obs")
    rc, o = sh([bins["debug"], "gen", "--seed", str(seed * 13 + 3), "--hists", str(nshapes), "--len", str(plen), "--profile", "core",
                "--max-nodes", "7", "--ops", base_ops, "--obs", base_obs], timeout=300)
    if rc != 0: raise ToolError("gen failed: " + o[-500:])
    ops_l = [l.rstrip("\n") for l in open(base_ops) if l.strip() and not l.startswith("#")]
    obs_l = [l.rstrip("\n") for l in open(base_obs)]
    hists, cur = [], None
    for c, ob in zip(ops_l, obs_l):
        if c.startswith("hist "):
            cur = dict(ops=[], ids=[], flags="", slots=[], ok=True); hists.append(cur); continue
        if cur is None: continue
        if c in ("end",): continue
        if c.startswith(("clear", "fork", "forkfrom", "swap", "serde")): cur["ok"] = False      # keep shapes simple
        # observation-only commands of the seed history are not replayed 100 000 times (arena dumps stay: the step
        # monitor judges a call only against a state dumped right before it)
        if c.split()[0] in ("qi", "qx", "qd", "ql", "qf", "qp", "qav", "qeq", "drops", "rend"):
            continue
        cur["ops"].append(c)
        if ob.startswith("r id "): cur["ids"].append(ob.split()[2])
        if ob.startswith("m"): cur["flags"] = ob[2:] if len(ob) > 2 else ""
        if ob.startswith("a "): cur["slots"] = [p.split(" ") for p in ob.split(" | ")[1:]]
    KINDS2 = ["app", "pre", "ia", "ib", "capp", "cpre", "cia", "cib"]
    all_ops, nh, shapes_used = [], 0, 0
    def usable(h):
        live, dead = [], []
        latest = {}
        for k, i in enumerate(h["ids"]): latest[i.split(":")[0]] = k
        for k, i in enumerate(h["ids"]):
            idx = int(i.split(":")[0]) - 1
            if k >= len(h["flags"]) or idx >= len(h["slots"]): continue
            if h["flags"][k] == "0": live.append(k)
            elif h["slots"][idx][0].startswith("-") and latest[i.split(":")[0]] == k: dead.append(k)
        return live, dead
    def calls(h):
        live, dead = usable(h)
        u = live + dead
        cs = ["%s %d %d" % (k, a, b) for k in KINDS2 for a in u for b in u]
        cs += ["%s %d" % (k, a) for k in ("det", "rem", "rst") for a in live]
        cs += ["appv %d 900" % a for a in u] + ["new 901"]
        return cs
    for h in hists:
        if not h["ok"] or not h["ids"]: continue
        shapes_used += 1
        for c in calls(h):
            all_ops += ["hist %d" % nh] + h["ops"] + [c, "qa", "qr", "qf", "drops", "end"]; nh += 1
    # depth two on the smallest shapes (thorough)
    if tier != "quick":
        small = sorted([h for h in hists if h["ok"] and h["ids"]], key=lambda h: len(h["ids"]))[:4]
        for h in small:
            cs = calls(h)
            if len(cs) > 260: continue
            _, dead_h = usable(h)
            def uses_dead(c):
                return any(t.isdigit() and int(t) in dead_h for t in c.split()[1:3]) and not c.startswith(("new", "appv %s" % "x"))
            for c1 in cs:
                for c2 in cs:
                    # an allocation may recycle the slot of a removed id, which makes that id stale: after
                    # new_node / append_value the second call may only name live ids
                    if c1.startswith(("new ", "appv ")) and any(t.isdigit() and int(t) in dead_h for t in c2.split()[1:(2 if c2.startswith("appv") else 3)]): continue
                    # the second call must be valid after the first: a removal may kill ids, and
                    # detach/remove/remove_subtree require a live id — after a removal keep only the
                    # calls that accept removed ids (the eight inserts, append_value, new_node)
                    if c1.startswith(("rem ", "rst ")) and c2.startswith(("det ", "rem ", "rst ")): continue
                    all_ops += ["hist %d" % nh] + h["ops"] + [c1, "qa", "qr", c2, "qa", "qr", "end"]; nh += 1
    for build in ("debug", "release"):
        r = vlib.run_ops_once(pid, wd, bins[build], build, all_ops, "enum-" + build)
        out["evaluations"] += r["stat"].get(pid, 0)
        for m in r["mon"]:
            if m["prop"] == pid:
                hops = vlib.history_ops(r["ops"], m["hist"])
                out["violations"].append(_viol(["exhaustive small-scope enumeration (%s build): %s" % (build, m["msg"]), "at command [%s]" % m["cmd"]], hops)); break
        if r["diffs"] and not out["violations"]:
            d = r["diffs"][0]
            out["violations"].append(_viol(["exhaustive small-scope enumeration (%s build): model and implementation differ at [%s]" % (build, d["cmd"]),
                                            "impl : " + d["impl"][:300], "model: " + d["model"][:300]], vlib.history_ops(r["ops"], d["hist"]), nofail=True))
        if r["hang"]: out["violations"].append(_viol(["exhaustive enumeration: " + r["hang"]]))
    out["distinct"] += nh
    out["summary"]["enum_scope"] = "%d seed shapes; every structural call with every ordered pair of usable ids (%d single-call histories%s), debug+release" % (
        shapes_used, nh, "" if tier == "quick" else " incl. all two-call sequences on the 4 smallest shapes")
    out["rule"] += " enum: exhaustive over (8 insert entry points x all ordered pairs of usable ids) + detach/remove/remove_subtree/append_value/new_node, from %d seed shapes." % shapes_used

# ------------------------------------------------------------------------------------------
def printdeep_ops(tier):
    """deep spines of only / last / first / mixed children with multi-line multi-chunk payloads, printed in 4 modes"""
    def hexs(b): return b.encode().hex()
    ops, hn = [], 0
    for kind in ("only", "last", "first", "mixed"):
        depth = 20 if tier == "quick" else 40
        ops.append("hist %d" % hn); hn += 1
        v = 1
        ops.append("new %d" % v); handles = [0]; nh = 1; v += 1
        spine = 0
        for d in range(depth):
            if kind in ("last", "mixed") and (kind == "last" or d % 3 == 0):
                ops.append("appv %d %d" % (spine, v)); v += 1; nh += 1          # an earlier sibling
            ops.append("appv %d %d" % (spine, v)); v += 1; child = nh; nh += 1
            if kind in ("first", "mixed") and (kind == "first" or d % 3 == 1):
                ops.append("appv %d %d" % (spine, v)); v += 1; nh += 1          # a later sibling
            spine = child
        for val in range(1, v):
            for mode in range(4):
                chunks = [hexs("n%d" % val), hexs("\nsecond %d" % val), "", hexs("\n\nlast") ] if val % 2 == 0 else [hexs("v%d-m%d" % (val, mode))]
                ops.append("rend %d %d %s" % (val, mode, ",".join(chunks)))
        ops.append("qa")
        for hd in range(nh):
            if hd % (1 if tier != "quick" else 3) == 0 or hd < 3:
                for mode in range(4):
                    ops.append("qp %d %d" % (hd, mode))
        ops.append("end")
    return ops, hn

def printdeep(pid, tier, seed, wd, bins, out):
    """deterministic deep shapes for the printer: long spines of last / only / non-last children with
    multi-line payloads (many whitespace-only guide levels, many bar guides), printed from every node
    in all four modes"""
    ops, hn = printdeep_ops(tier)
    for build in ("debug", "release"):
        r = vlib.run_ops_once(pid, wd, bins[build], build, ops, "printdeep-" + build)
        out["evaluations"] += r["stat"].get(pid, 0)
        for m in r["mon"]:
            if m["prop"] == pid:
                out["violations"].append(_viol(["deep printer shapes (%s build): %s" % (build, m["msg"][:600]), "at command [%s]" % m["cmd"]], vlib.history_ops(r["ops"], m["hist"]))); break
        if r["diffs"] and not out["violations"]:
            d = r["diffs"][0]
            out["violations"].append(_viol(["deep printer shapes (%s build): model and implementation differ at [%s]" % (build, d["cmd"]), "impl : " + d["impl"][:300], "model: " + d["model"][:300]], vlib.history_ops(r["ops"], d["hist"]), nofail=True))
    out["distinct"] += hn
    out["summary"]["printdeep"] = "4 deep spines (only / last / first / mixed children) with multi-line multi-chunk payloads printed in 4 modes"

# ------------------------------------------------------------------------------------------
def run_extras(pid, tier, seed, wd, bins):
    out = dict(violations=[], evaluations=0, distinct=0, samples=[], summary={}, rule="")
    for e in vlib.PROPS[pid].get("extra", []):
        if e == "stamps": stamps(pid, tier, seed, wd, bins, out)
        elif e == "genwrap": genwrap(pid, tier, seed, wd, bins, out)
        elif e == "deep": deep(pid, tier, seed, wd, bins, out)
        elif e == "selfcheck": selfcheck(pid, tier, seed, wd, bins, out)
        elif e == "determinism": determinism(pid, tier, seed, wd, bins, out)
        elif e == "features": features(pid, tier, seed, wd, bins, out)
        elif e == "enum": enum_scope(pid, tier, seed, wd, bins, out)
        elif e == "printdeep": printdeep(pid, tier, seed, wd, bins, out)
        elif e == "macro":
            import vmacro
            vmacro.run(pid, tier, seed, wd, bins, out)
        elif e == "autotraits":
            out["summary"]["autotraits"] = "rustc oracle: the harness build instantiates assert_send_sync::<T>() for Arena<Pay>, Node<Pay>, NodeId, NodeEdge and the nine iterators; it compiled"
    return out
