//! Demonstrations of the seven defects P1..P7 found on indextree 4.7.3 (see DESIGN.md section 7).
//! Each scenario prints `Pn ok` when the property holds and `Pn DEFECT ...` otherwise.
//! Usage: defect-demo [P1 .. P7]   (no args = all). Exit code 1 when any scenario shows a defect.
use indextree::{Arena, NodeId};
use std::panic::{catch_unwind, AssertUnwindSafe};

fn anc_bounded(a: &Arena<u32>, x: NodeId) -> Option<usize> {
    let mut cur = Some(x);
    let mut n = 0;
    while let Some(c) = cur {
        n += 1;
        if n > a.count() + 1 {
            return None;
        }
        cur = a[c].parent();
    }
    Some(n)
}

fn p1() -> Result<(), String> {
    let mut a = Arena::new();
    let r = a.new_node(0u32);
    let p = a.new_node(1);
    let c = a.new_node(2);
    r.append(p, &mut a);
    p.append(c, &mut a);
    let snap = a.clone();
    let res = catch_unwind(AssertUnwindSafe(|| c.checked_insert_after(p, &mut a)));
    match res {
        Err(_) => Err(format!("checked_insert_after(parent) panicked; arena unchanged: {}", a == snap)),
        Ok(Ok(())) => Err("accepted".into()),
        Ok(Err(_)) => if a == snap { Ok(()) } else { Err("Err but arena changed".into()) },
    }
}
fn p2() -> Result<(), String> {
    let mut a = Arena::new();
    let g = a.new_node(0u32);
    let p = a.new_node(1);
    let c = a.new_node(2);
    g.append(p, &mut a);
    p.append(c, &mut a);
    let snap = a.clone();
    let res = catch_unwind(AssertUnwindSafe(|| c.checked_insert_after(g, &mut a)));
    match res {
        Err(_) => Err("panicked".into()),
        Ok(Ok(())) => Err(format!("accepted; ancestors(c) terminates: {:?}", anc_bounded(&a, c))),
        Ok(Err(_)) => if a == snap { Ok(()) } else { Err("Err but arena changed".into()) },
    }
}
fn p3() -> Result<(), String> {
    let mut a = Arena::new();
    let p = a.new_node(0u32);
    let c = a.new_node(1);
    let d = a.new_node(2);
    p.append(c, &mut a);
    p.append(d, &mut a);
    let snap = a.clone();
    let res = catch_unwind(AssertUnwindSafe(|| p.checked_prepend(c, &mut a)));
    match res {
        Err(_) => Err("checked_prepend(first child) panicked".into()),
        Ok(Err(e)) => Err(format!("refused: {e}")),
        Ok(Ok(())) => if a == snap { Ok(()) } else { Err("not a no-op".into()) },
    }
}
fn p4() -> Result<(), String> {
    let mut a = Arena::new();
    let p = a.new_node(0u32);
    p.remove(&mut a);
    let snap = a.clone();
    let res = catch_unwind(AssertUnwindSafe(|| p.append_value(7, &mut a)));
    match res {
        Err(_) => if a == snap { Ok(()) } else { Err("panicked but arena changed".into()) },
        Ok(n) => Err(format!("append_value on removed node returned {n}; parent of new = {:?}", a[n].parent())),
    }
}
fn p5() -> Result<(), String> {
    let mut a = Arena::new();
    let r = a.new_node(0u32);
    let p = a.new_node(1);
    let c = a.new_node(2);
    let d = a.new_node(3);
    r.append(p, &mut a);
    p.append(c, &mut a);
    p.append(d, &mut a);
    p.remove_subtree(&mut a);
    for (name, x) in [("p", p), ("c", c), ("d", d)] {
        let n = &a[x];
        if n.parent().is_some() || n.previous_sibling().is_some() || n.next_sibling().is_some()
            || n.first_child().is_some() || n.last_child().is_some() {
            return Err(format!("removed node {name} still has links: {n}"));
        }
    }
    Ok(())
}
fn p6() -> Result<(), String> {
    let mut a = Arena::new();
    let x = a.new_node(0u32);
    let y = a.new_node(1);
    let z = a.new_node(2);
    x.insert_after(y, &mut a);
    y.insert_after(z, &mut a);
    let f: Vec<_> = x.following_siblings(&a).collect();
    let mut fr: Vec<_> = x.following_siblings(&a).rev().collect();
    fr.reverse();
    let p: Vec<_> = z.preceding_siblings(&a).collect();
    let mut pr: Vec<_> = z.preceding_siblings(&a).rev().collect();
    pr.reverse();
    if f != fr { return Err(format!("following_siblings {} elems, rev {} elems", f.len(), fr.len())); }
    if p != pr { return Err(format!("preceding_siblings {} elems, rev {} elems", p.len(), pr.len())); }
    Ok(())
}
fn p7() -> Result<(), String> {
    let mut a = Arena::new();
    let mut issued: Vec<NodeId> = Vec::new();
    let mut seen = std::collections::HashSet::new();
    for i in 0..40000u32 {
        let n = a.new_node(i);
        if !seen.insert(n) {
            let stale_removed = issued.iter().filter(|x| **x == n).all(|x| x.is_removed(&a));
            return Err(format!("id {n:?} issued twice (allocation #{i}); stale copy is_removed = {stale_removed}"));
        }
        issued.push(n);
        n.remove(&mut a);
    }
    Ok(())
}
fn main() {
    std::panic::set_hook(Box::new(|_| {}));
    let args: Vec<String> = std::env::args().skip(1).collect();
    let all: [(&str, fn() -> Result<(), String>); 7] =
        [("P1", p1), ("P2", p2), ("P3", p3), ("P4", p4), ("P5", p5), ("P6", p6), ("P7", p7)];
    let mut bad = 0;
    for (n, f) in all {
        if !args.is_empty() && !args.iter().any(|a| a == n) { continue; }
        match f() {
            Ok(()) => println!("{n} ok"),
            Err(e) => { bad += 1; println!("{n} DEFECT {e}") }
        }
    }
    std::process::exit(if bad > 0 { 1 } else { 0 });
}
