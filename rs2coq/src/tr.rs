//! Rust (syn AST) -> monadic Gallina.  Part 1: effects prefix, places.
use crate::code::*;
use crate::cx::*;
use quote::ToTokens;
use syn::*;

pub enum Pre {
    Bind(String, Code),
    Let(String, String),
    Seq(Code),
    /// `match scrut with ok_pat => <rest> | other arms end` (the `?` operator, let-else)
    Guard(String, String, Vec<(String, Code)>),
}

pub fn wrap(pres: Vec<Pre>, inner: Code) -> Code {
    let mut c = inner;
    for p in pres.into_iter().rev() {
        c = match p {
            Pre::Bind(pat, m) => Code::bind(&pat, m, c),
            Pre::Let(pat, t) => Code::Let(pat, t, Box::new(c)),
            Pre::Seq(m) => Code::seq(m, c),
            Pre::Guard(s, ok, others) => {
                let mut arms = vec![(ok, c)];
                arms.extend(others);
                Code::Match(s, arms)
            }
        };
    }
    c
}

#[derive(Clone, Debug)]
pub enum Pl {
    Local(String),
    SelfWhole,                 // *self of a MutVal self
    SelfRaw,                   // self.0 of NodeStamp
    SelfField(String),         // self.<f> of a MutVal(Node) self
    SelfTup(usize),            // component of a pair-shaped self (iterator states)
    LocalField(String, String), // field of a local IndentedBlockState value
    ArenaField(&'static str),  // first_free_slot / last_free_slot
    Slot(String),              // the node stored at (nat) index
    SlotField(String, String), // .<field> of that node
}

pub fn ts<T: ToTokens>(t: &T) -> String {
    t.to_token_stream().to_string()
}

pub fn path_str(p: &Path) -> String {
    p.segments.iter().map(|s| s.ident.to_string()).collect::<Vec<_>>().join("::")
}

pub fn unify(a: &Ty, b: &Ty) -> Ty {
    match (a, b) {
        (Ty::Unknown, x) | (x, Ty::Unknown) => x.clone(),
        (Ty::Never, x) | (x, Ty::Never) => x.clone(),
        (Ty::Opt(x), Ty::Opt(y)) => Ty::opt(unify(x, y)),
        (Ty::Tup(xs), Ty::Tup(ys)) if xs.len() == ys.len() => Ty::Tup(xs.iter().zip(ys).map(|(x, y)| unify(x, y)).collect()),
        (Ty::I16, Ty::Stamp) | (Ty::Stamp, Ty::I16) => Ty::Stamp,
        (Ty::Nat, Ty::NzNat) | (Ty::NzNat, Ty::Nat) => Ty::Nat,
        _ => a.clone(),
    }
}

pub fn eqb(ty: &Ty, a: &str, b: &str) -> R<String> {
    Ok(match ty {
        Ty::NodeId => format!("nid_eqb {} {}", paren(a), paren(b)),
        Ty::Opt(t) if **t == Ty::NodeId || **t == Ty::Unknown => format!("onid_eqb {} {}", paren(a), paren(b)),
        Ty::Bool => format!("Bool.eqb {} {}", paren(a), paren(b)),
        Ty::I16 | Ty::Stamp => format!("Z.eqb {} {}", paren(a), paren(b)),
        Ty::Nat | Ty::NzNat => format!("Nat.eqb {} {}", paren(a), paren(b)),
        Ty::Edge => format!("edge_eqb {} {}", paren(a), paren(b)),
        Ty::LState => format!("lstate_eqb {} {}", paren(a), paren(b)),
        t => return Err(format!("no equality test for type {:?}", t)),
    })
}

/// Rust type -> Ty
pub fn ty_of(t: &Type) -> Ty {
    let s = ts(t).replace(' ', "");
    let s = s.trim_start_matches('&').trim_start_matches("mut").to_string();
    match s.as_str() {
        "NodeId" => Ty::NodeId,
        "Self" => Ty::Unknown,
        "bool" => Ty::Bool,
        "usize" => Ty::Nat,
        "NonZeroUsize" => Ty::NzNat,
        "i16" => Ty::I16,
        "NodeStamp" => Ty::Stamp,
        "()" => Ty::Unit,
        "T" => Ty::Payload,
        "Option<NodeId>" => Ty::opt(Ty::NodeId),
        "Option<usize>" => Ty::opt(Ty::Nat),
        "Option<Self>" | "Option<NodeEdge>" => Ty::opt(Ty::Edge),
        "NodeEdge" => Ty::Edge,
        "Result<(),ConsistencyError>" => Ty::CRes,
        "Result<(),NodeError>" => Ty::NRes,
        "SiblingsRange" | "DetachedSiblingsRange" => Ty::Range,
        "Node<T>" => Ty::Node,
        "Option<&Node<T>>" | "Option<&mutNode<T>>" => Ty::opt(Ty::Node),
        "Vec<NodeId>" => Ty::ListNid,
        "&'staticstr" | "'staticstr" | "str" => Ty::Str,
        "fmt::Result" => Ty::Unit,
        "Result<(),()>" => Ty::URes,
        "IndentedBlockState" => Ty::IState,
        "LineState" => Ty::LState,
        "DeSt" => Ty::DeSt,
        "IterSt" => Ty::IterSt,
        _ => Ty::Unknown,
    }
}

impl Cx {
    pub fn fresh_bind(&mut self, base: &str, m: Code, pres: &mut Vec<Pre>) -> String {
        let v = self.gensym(base);
        pres.push(Pre::Bind(v.clone(), m));
        v
    }

    /// recognise an lvalue / place expression
    pub fn place(&mut self, e: &Expr, pres: &mut Vec<Pre>) -> R<Option<Pl>> {
        match e {
            Expr::Paren(p) => self.place(&p.expr, pres),
            Expr::Path(p) => {
                let name = path_str(&p.path);
                if name == "self" {
                    return Ok(match self.cur.self_kind {
                        SelfKind::MutVal(_) => Some(Pl::SelfWhole),
                        _ => None,
                    });
                }
                match self.lookup(&name) {
                    Some(Bnd::Slot { idx }) => Ok(Some(Pl::Slot(idx.clone()))),
                    Some(Bnd::Val { .. }) => Ok(Some(Pl::Local(name))),
                    Some(Bnd::Fun { .. }) => Ok(None),
                    None => Ok(None),
                }
            }
            Expr::Unary(u) if matches!(u.op, UnOp::Deref(_)) => self.place(&u.expr, pres),
            Expr::Index(ix) if matches!(&*ix.index, Expr::Range(_)) => Ok(None),
            Expr::Index(ix) if ts(&ix.expr).replace(' ', "") == "self.indents" => Ok(None),
            Expr::Index(ix) => {
                // arena[id] | self[id] | self.nodes[usize]
                let base = ts(&ix.expr).replace(' ', "");
                let (it, ity) = self.expr(&ix.index, pres)?;
                let is_arena = base == "arena" || base == "self.0.arena" || base == "self.arena" || (base == "self" && self.cur.self_kind == SelfKind::Arena);
                if is_arena {
                    if ity != Ty::NodeId {
                        return Err(format!("arena[..] with index of type {:?}", ity));
                    }
                    Ok(Some(Pl::Slot(format!("idx {}", paren(&it)))))
                } else if base == "self.nodes" && self.cur.self_kind == SelfKind::Arena {
                    if ity != Ty::Nat {
                        return Err(format!("self.nodes[..] with index of type {:?}", ity));
                    }
                    Ok(Some(Pl::Slot(it)))
                } else {
                    Err(format!("unsupported indexing of `{}`", base))
                }
            }
            Expr::Field(f) => {
                let fname = match &f.member {
                    Member::Named(i) => i.to_string(),
                    Member::Unnamed(i) => i.index.to_string(),
                };
                let base = ts(&f.base).replace(' ', "");
                if base == "self.0" {
                    match (&self.cur.self_kind, fname.as_str()) {
                        (SelfKind::MutVal(Ty::IterSt), "node") => return Ok(Some(Pl::SelfWhole)),
                        (SelfKind::MutVal(Ty::DeSt), "head") => return Ok(Some(Pl::SelfTup(0))),
                        (SelfKind::MutVal(Ty::DeSt), "tail") => return Ok(Some(Pl::SelfTup(1))),
                        _ => return Ok(None),
                    }
                }
                if base == "self" {
                    match (&self.cur.self_kind, fname.as_str()) {
                        (SelfKind::MutVal(Ty::TravSt), "root") => return Ok(Some(Pl::SelfTup(0))),
                        (SelfKind::MutVal(Ty::TravSt), "next") => return Ok(Some(Pl::SelfTup(1))),
                        _ => {}
                    }
                }
                if base == "self" {
                    match (&self.cur.self_kind, fname.as_str()) {
                        (SelfKind::MutVal(Ty::Stamp), "0") => return Ok(Some(Pl::SelfRaw)),
                        (SelfKind::MutVal(Ty::Node), _) => return Ok(Some(Pl::SelfField(fname))),
                        (SelfKind::MutVal(Ty::Writer), "line_state") | (SelfKind::MutVal(Ty::Writer), "indents") | (SelfKind::MutVal(Ty::Writer), "pending_ws_only_indent_level") => return Ok(Some(Pl::SelfField(fname))),
                        (SelfKind::Arena, "first_free_slot") => return Ok(Some(Pl::ArenaField("ffree"))),
                        (SelfKind::Arena, "last_free_slot") => return Ok(Some(Pl::ArenaField("lfree"))),
                        _ => return Ok(None),
                    }
                }
                match self.place(&f.base, pres)? {
                    Some(Pl::Slot(idx)) => Ok(Some(Pl::SlotField(idx, fname))),
                    Some(Pl::Local(x)) if matches!(self.lookup(&x), Some(Bnd::Val { ty: Ty::IState, .. })) => Ok(Some(Pl::LocalField(x, fname))),
                    _ => Ok(None),
                }
            }
            _ => Ok(None),
        }
    }

    pub fn node_field_read(&self, n: &str, fname: &str) -> R<(String, Ty)> {
        if let Some((proj, _)) = field_of(fname) {
            return Ok((format!("{} {}", proj, paren(n)), Ty::opt(Ty::NodeId)));
        }
        match fname {
            "stamp" => Ok((format!("stamp {}", paren(n)), Ty::Stamp)),
            "data" => Ok((format!("data {}", paren(n)), Ty::Data)),
            _ => Err(format!("unknown Node field {}", fname)),
        }
    }

    pub fn node_field_set(&self, fname: &str, v: &str) -> R<String> {
        if let Some((_, f)) = field_of(fname) {
            return Ok(format!("setf {} {}", f, paren(v)));
        }
        match fname {
            "stamp" => Ok(format!("set_stamp {}", paren(v))),
            "data" => Ok(format!("set_data {}", paren(v))),
            _ => Err(format!("unknown Node field {}", fname)),
        }
    }

    pub fn read_place(&mut self, pl: &Pl, pres: &mut Vec<Pre>) -> R<(String, Ty)> {
        match pl {
            Pl::Local(x) => match self.lookup(x) {
                Some(Bnd::Val { term, ty }) => Ok((term.clone(), ty.clone())),
                _ => Err(format!("unbound {}", x)),
            },
            Pl::SelfWhole => match &self.cur.self_kind {
                SelfKind::MutVal(Ty::IterSt) => Ok((self.self_var.clone(), Ty::opt(Ty::NodeId))),
                SelfKind::MutVal(t) => Ok((self.self_var.clone(), t.clone())),
                _ => Err("self is not a value".into()),
            },
            Pl::SelfRaw => Ok((self.self_var.clone(), Ty::I16)),
            Pl::SelfTup(i) => {
                let tys = match &self.cur.self_kind {
                    SelfKind::MutVal(Ty::DeSt) => [Ty::opt(Ty::NodeId), Ty::opt(Ty::NodeId)],
                    SelfKind::MutVal(Ty::TravSt) | SelfKind::Val(Ty::TravSt) => [Ty::NodeId, Ty::opt(Ty::Edge)],
                    _ => return Err("pair component of a non-pair self".into()),
                };
                Ok((format!("{} {}", if *i == 0 { "fst" } else { "snd" }, paren(&self.self_var)), tys[*i].clone()))
            }
            Pl::SelfField(f) if matches!(self.cur.self_kind, SelfKind::MutVal(Ty::Writer)) => {
                let s = self.self_var.clone();
                Ok(match f.as_str() {
                    "line_state" => (format!("g_lst {}", s), Ty::LState),
                    "indents" => (format!("g_ind {}", s), Ty::ListIState),
                    _ => (format!("g_pend {}", s), Ty::Nat),
                })
            }
            Pl::LocalField(x, f) => {
                let t = match self.lookup(x) {
                    Some(Bnd::Val { term, .. }) => term.clone(),
                    _ => return Err(format!("unbound {}", x)),
                };
                match f.as_str() {
                    "is_last_item" => Ok((format!("fst {}", paren(&t)), Ty::Bool)),
                    "is_first_line" => Ok((format!("snd {}", paren(&t)), Ty::Bool)),
                    _ => Err(format!("unknown IndentedBlockState field {}", f)),
                }
            }
            Pl::SelfField(f) => {
                let s = self.self_var.clone();
                self.node_field_read(&s, f)
            }
            Pl::ArenaField(f) => {
                let a = self.fresh_bind("a_", Code::Raw("get_arena".into()), pres);
                Ok((format!("{} {}", f, a), Ty::opt(Ty::Nat)))
            }
            Pl::Slot(idx) => {
                let n = self.fresh_bind("n_", Code::Raw(format!("rd {}", paren(idx))), pres);
                Ok((n, Ty::Node))
            }
            Pl::SlotField(idx, f) => {
                let n = self.fresh_bind("n_", Code::Raw(format!("rd {}", paren(idx))), pres);
                self.node_field_read(&n, f)
            }
        }
    }

    pub fn write_place(&mut self, pl: &Pl, v: &str, vty: &Ty, pres: &mut Vec<Pre>) -> R<()> {
        match pl {
            Pl::Local(x) => {
                let ty = match self.lookup(x) {
                    Some(Bnd::Val { ty, .. }) => unify(ty, vty),
                    _ => return Err(format!("unbound {}", x)),
                };
                let n = self.gensym(&format!("v_{}_", sanitize(x)));
                pres.push(Pre::Let(n.clone(), v.to_string()));
                self.assign(x, Bnd::Val { term: n, ty })
            }
            Pl::SelfWhole | Pl::SelfRaw => {
                let n = self.gensym("v_self_");
                pres.push(Pre::Let(n.clone(), v.to_string()));
                self.self_var = n;
                Ok(())
            }
            Pl::SelfTup(i) => {
                let n = self.gensym("v_self_");
                let t = if *i == 0 { format!("({}, snd {})", v, paren(&self.self_var)) } else { format!("(fst {}, {})", paren(&self.self_var), v) };
                pres.push(Pre::Let(n.clone(), t));
                self.self_var = n;
                Ok(())
            }
            Pl::SelfField(f) if matches!(self.cur.self_kind, SelfKind::MutVal(Ty::Writer)) => {
                let n = self.gensym("v_self_");
                let setter = match f.as_str() {
                    "line_state" => "set_g_lst",
                    "indents" => "set_g_ind",
                    _ => "set_g_pend",
                };
                pres.push(Pre::Let(n.clone(), format!("{} {} {}", setter, paren(&crate::expr::lit_as(v, &Ty::Nat)), self.self_var)));
                self.self_var = n;
                Ok(())
            }
            Pl::LocalField(x, f) => {
                let (t, ty) = match self.lookup(x) {
                    Some(Bnd::Val { term, ty }) => (term.clone(), ty.clone()),
                    _ => return Err(format!("unbound {}", x)),
                };
                let nv = match f.as_str() {
                    "is_last_item" => format!("({}, snd {})", v, paren(&t)),
                    "is_first_line" => format!("(fst {}, {})", paren(&t), v),
                    _ => return Err(format!("unknown IndentedBlockState field {}", f)),
                };
                let n = self.gensym(&format!("v_{}_", sanitize(x)));
                pres.push(Pre::Let(n.clone(), nv));
                self.assign(x, Bnd::Val { term: n, ty })
            }
            Pl::SelfField(f) => {
                let n = self.gensym("v_self_");
                let set = self.node_field_set(f, v)?;
                pres.push(Pre::Let(n.clone(), format!("{} {}", set, self.self_var)));
                self.self_var = n;
                Ok(())
            }
            Pl::ArenaField(f) => {
                let a = self.fresh_bind("a_", Code::Raw("get_arena".into()), pres);
                pres.push(Pre::Seq(Code::Raw(format!("put_arena (set_{} {} {})", f, paren(v), a))));
                Ok(())
            }
            Pl::Slot(idx) => {
                pres.push(Pre::Seq(Code::Raw(format!("upd {} (fun _ => {})", paren(idx), v))));
                Ok(())
            }
            Pl::SlotField(idx, f) => {
                let set = self.node_field_set(f, v)?;
                pres.push(Pre::Seq(Code::Raw(format!("upd {} ({})", paren(idx), set))));
                Ok(())
            }
        }
    }
}
