//! rs2coq — regenerates Gallina definitions of indextree's core functions from the Rust sources.
//! usage: rs2coq <repo>/indextree/src <out-dir>
//! Every function listed in PLAN is translated into the monadic vocabulary of coq/theories/Base.v
//! (one Gallina definition per Rust function).  Anything outside the supported subset becomes a
//! value of type `unsupported`, on which the bridging theorems (coq/props/SRC*.v) fail: fail-closed.
mod calls;
mod code;
mod cx;
mod expr;
mod inv;
mod stmts;
mod tr;

use code::*;
use cx::*;
use std::collections::HashMap;
use stmts::Tail;
use syn::*;
use tr::*;

/// (output file, header imports, functions in dependency order)
const PLAN: &[(&str, &str, &[&str])] = &[
    (
        "GenStamp",
        "From IT Require Import SrcSupport.",
        &["NodeStamp::is_removed", "NodeStamp::as_removed", "NodeStamp::reuseable", "NodeStamp::reuse", "Node::is_removed", "Node::is_detached", "Node::new", "Node::reuse", "NodeId::index0", "NodeId::from_non_zero_usize", "NodeId::is_removed"],
    ),
    (
        "GenRel",
        "From IT Require Import SrcSupport.\nFrom IT.gen Require Import GenStamp.",
        &[
            "assert_triangle_nodes",
            "connect_neighbors",
            "SiblingsRange::new",
            "DetachedSiblingsRange::new",
            "SiblingsRange::detach_from_siblings",
            "DetachedSiblingsRange::rewrite_parents",
            "DetachedSiblingsRange::transplant",
            "insert_with_neighbors",
            "insert_last_unchecked",
        ],
    ),
    (
        "GenAlloc",
        "From IT Require Import SrcSupport.\nFrom IT.gen Require Import GenStamp.",
        &["Arena::pop_front_free_node", "Arena::new_node", "Arena::free_node", "Arena::clear", "Arena::count", "Arena::is_empty", "Arena::get", "Arena::get_node_id_at", "Arena::get_node_id"],
    ),
    (
        "GenOps",
        "From IT Require Import SrcSupport.\nFrom IT.gen Require Import GenStamp GenRel GenAlloc.",
        &[
            "NodeId::detach",
            "NodeId::checked_append",
            "NodeId::append",
            "NodeId::checked_prepend",
            "NodeId::prepend",
            "NodeId::checked_insert_after",
            "NodeId::insert_after",
            "NodeId::checked_insert_before",
            "NodeId::insert_before",
            "NodeId::append_new_node_unchecked",
            "NodeId::append_value",
            "NodeId::remove",
            "NodeId::remove_subtree",
        ],
    ),
    ("GenTrav", "From IT Require Import SrcSupport.\nFrom IT.gen Require Import GenStamp GenAlloc.", &["NodeEdge::next_traverse", "NodeEdge::prev_traverse", "IterArm::next", "DeArm::next", "DeArm::next_back", "Traverse::next_of_next", "Traverse::next", "ReverseTraverse::next_of_next", "ReverseTraverse::next",
        "Ancestors::new", "Ancestors::nextf", "Predecessors::new", "Predecessors::nextf", "PrecedingSiblings::new", "PrecedingSiblings::nextf", "PrecedingSiblings::backf",
        "FollowingSiblings::new", "FollowingSiblings::nextf", "FollowingSiblings::backf", "Children::new", "Children::nextf", "Children::backf", "ReverseChildren::new", "ReverseChildren::nextf"]),
    (
        "GenPrint",
        "From IT Require Import SrcSupport.",
        &["IndentedBlockState::as_str", "IndentedBlockState::as_str_leading", "IndentedBlockState::as_str_trailing_spaces", "IndentedBlockState::is_all_whitespace",
          "IndentWriter::open_item", "IndentWriter::close_item", "IndentWriter::write_indent_partial", "IndentWriter::complete_partial_indent", "IndentWriter::write_str"],
    ),
];

struct FnSrc {
    sig: Signature,
    block: Block,
    impl_ty: Option<String>,
    cfg: Option<String>, // a #[cfg] on the function or on its impl block
}

fn cfg_of(attrs: &[Attribute]) -> Option<String> {
    attrs.iter().map(|a| ts(a).replace(' ', "")).find(|s| s.starts_with("#[cfg"))
}

fn collect(file: &File, out: &mut HashMap<String, FnSrc>) {
    for it in &file.items {
        match it {
            Item::Fn(f) => {
                if has_cfg_verif(&f.attrs) {
                    continue;
                }
                out.insert(f.sig.ident.to_string(), FnSrc { sig: f.sig.clone(), block: (*f.block).clone(), impl_ty: None, cfg: cfg_of(&f.attrs) });
            }
            Item::Macro(m) if m.ident.as_ref().map_or(false, |i| i == "new_iterator") => {
                // the arms of new_iterator!: the one implementing DoubleEndedIterator is DeArm, the other
                // one implementing Iterator is IterArm
                for arm in inv::macro_arms(m).into_iter().flatten() {
                    let is_de = arm.items.iter().any(|it| matches!(it, Item::Impl(im) if im.trait_.as_ref().map_or(false, |t| path_str(&t.1).ends_with("DoubleEndedIterator"))));
                    let is_it = arm.items.iter().any(|it| matches!(it, Item::Impl(im) if im.trait_.as_ref().map_or(false, |t| path_str(&t.1) == "Iterator")));
                    if !is_it {
                        continue;
                    }
                    let tyname = if is_de { "DeArm" } else { "IterArm" };
                    for it in &arm.items {
                        if let Item::Impl(im) = it {
                            if im.trait_.is_none() {
                                continue;
                            }
                            for ii in &im.items {
                                if let ImplItem::Fn(f) = ii {
                                    let key = format!("{}::{}", tyname, f.sig.ident);
                                    if out.contains_key(&key) {
                                        out.insert(format!("{}#dup", key), FnSrc { sig: f.sig.clone(), block: f.block.clone(), impl_ty: Some(tyname.to_string()), cfg: cfg_of(&f.attrs) });
                                    }
                                    out.insert(key, FnSrc { sig: f.sig.clone(), block: f.block.clone(), impl_ty: Some(tyname.to_string()), cfg: cfg_of(&f.attrs) });
                                }
                            }
                        }
                    }
                }
            }
            Item::Impl(im) => {
                if has_cfg_verif(&im.attrs) {
                    continue;
                }
                if let Some((_, tp, _)) = &im.trait_ {
                    let tn = path_str(tp);
                    if tn != "Iterator" && !tn.ends_with("DoubleEndedIterator") && tn != "fmt::Write" {
                        continue;
                    }
                }
                let tyname = match &*im.self_ty {
                    Type::Path(p) => p.path.segments.last().map(|s| s.ident.to_string()).unwrap_or_default(),
                    _ => continue,
                };
                for ii in &im.items {
                    if let ImplItem::Fn(f) = ii {
                        if has_cfg_verif(&f.attrs) {
                            continue;
                        }
                        let key = format!("{}::{}", tyname, f.sig.ident);
                        if out.contains_key(&key) {
                            // two definitions of one function (e.g. under different cfgs): not handled
                            out.insert(format!("{}#dup", key), FnSrc { sig: f.sig.clone(), block: f.block.clone(), impl_ty: Some(tyname.clone()), cfg: cfg_of(&f.attrs).or_else(|| cfg_of(&im.attrs)) });
                        }
                        out.insert(key, FnSrc { sig: f.sig.clone(), block: f.block.clone(), impl_ty: Some(tyname.clone()), cfg: cfg_of(&f.attrs).or_else(|| cfg_of(&im.attrs)) });
                    }
                }
            }
            _ => {}
        }
    }
}

/// `new_iterator!(#[attr]* Name, key = expr, ...)`
struct Invocation {
    name: String,
    kv: Vec<(String, Expr)>,
}
impl parse::Parse for Invocation {
    fn parse(input: parse::ParseStream) -> Result<Self> {
        let _ = input.call(Attribute::parse_outer)?;
        let name: Ident = input.parse()?;
        let mut kv = vec![];
        while input.peek(Token![,]) {
            let _: Token![,] = input.parse()?;
            if input.is_empty() {
                break;
            }
            let k: Ident = input.parse()?;
            let _: Token![=] = input.parse()?;
            let e: Expr = input.parse()?;
            kv.push((k.to_string(), e));
        }
        Ok(Invocation { name: name.to_string(), kv })
    }
}

/// a closure `|arena, node| body` / `|node| body` as a function source
fn closure_src(e: &Expr, ret: &str, first_param_ty: &str) -> Option<FnSrc> {
    let c = match e {
        Expr::Closure(c) => c,
        _ => return None,
    };
    let mut params = vec![];
    for (i, p) in c.inputs.iter().enumerate() {
        let name = match p {
            Pat::Ident(pi) => pi.ident.to_string(),
            _ => return None,
        };
        let ty = if name == "arena" { "&Arena<T>".to_string() } else if i == c.inputs.len() - 1 { first_param_ty.to_string() } else { return None };
        params.push(format!("{}: {}", name, ty));
    }
    let body = quote::quote!(#c).to_string();
    let body = &body[body.rfind('|').map(|_| 0).unwrap_or(0)..];
    let _ = body;
    let b = &c.body;
    let src = format!("fn f({}) -> {} {{ {} }}", params.join(", "), ret, quote::quote!(#b));
    let f: ItemFn = syn::parse_str(&src).ok()?;
    Some(FnSrc { sig: f.sig.clone(), block: (*f.block).clone(), impl_ty: None, cfg: cfg_of(&f.attrs) })
}

fn collect_invocations(file: &File, out: &mut HashMap<String, FnSrc>) {
    // defaults for `new` come from the forwarding arms of the macro itself
    let mut default_new: HashMap<bool, Expr> = HashMap::new();
    let mut invs: Vec<Invocation> = vec![];
    for it in &file.items {
        if let Item::Macro(m) = it {
            let is_def = m.ident.as_ref().map_or(false, |i| i == "new_iterator");
            if is_def {
                for arm in inv::macro_arms(m).into_iter().flatten() {
                    if arm.items.len() == 1 {
                        if let Item::Macro(fw) = &arm.items[0] {
                            if let Ok(iv) = fw.mac.parse_body::<Invocation>() {
                                let de = iv.kv.iter().any(|(k, _)| k == "next_back");
                                if let Some((_, e)) = iv.kv.iter().find(|(k, _)| k == "new") {
                                    if iv.kv.iter().all(|(k, e2)| k == "new" || ts(e2).starts_with("MV_")) {
                                        default_new.insert(de, e.clone());
                                    }
                                }
                            }
                        }
                    }
                }
            } else if path_str(&m.mac.path) == "new_iterator" {
                if let Ok(iv) = m.mac.parse_body::<Invocation>() {
                    invs.push(iv);
                }
            }
        }
    }
    for iv in invs {
        let de = iv.kv.iter().any(|(k, _)| k == "next_back");
        let st = if de { "DeSt" } else { "IterSt" };
        let newe = iv.kv.iter().find(|(k, _)| k == "new").map(|(_, e)| e.clone()).or_else(|| default_new.get(&de).cloned());
        if let Some(e) = newe {
            if let Some(f) = closure_src(&e, st, "NodeId") {
                out.insert(format!("{}::new", iv.name), f);
            }
        }
        for (k, key) in [("next", "nextf"), ("next_back", "backf")] {
            if let Some((_, e)) = iv.kv.iter().find(|(kk, _)| kk == k) {
                if let Some(f) = closure_src(e, "Option<NodeId>", "&Node<T>") {
                    out.insert(format!("{}::{}", iv.name, key), f);
                }
            }
        }
    }
}

fn has_cfg_verif(attrs: &[Attribute]) -> bool {
    attrs.iter().any(|a| ts(a).contains("indextree_verif") || ts(a).replace(' ', "").contains("cfg(test)"))
}

fn impl_ty_to_ty(n: &str) -> Ty {
    match n {
        "NodeId" => Ty::NodeId,
        "NodeStamp" => Ty::Stamp,
        "Node" => Ty::Node,
        "SiblingsRange" | "DetachedSiblingsRange" => Ty::Range,
        "NodeEdge" => Ty::Edge,
        "IndentedBlockState" => Ty::IState,
        "IndentWriter" => Ty::Writer,
        "IterArm" => Ty::IterSt,
        "DeArm" => Ty::DeSt,
        "Traverse" | "ReverseTraverse" => Ty::TravSt,
        _ => Ty::Unknown,
    }
}

fn mk_sig(key: &str, f: &FnSrc) -> Sig {
    let mut self_kind = SelfKind::None;
    let mut params = vec![];
    for a in &f.sig.inputs {
        match a {
            FnArg::Receiver(r) => {
                let t = f.impl_ty.clone().unwrap_or_default();
                self_kind = if t == "Arena" {
                    SelfKind::Arena
                } else if r.reference.is_some() && r.mutability.is_some() {
                    SelfKind::MutVal(impl_ty_to_ty(&t))
                } else {
                    SelfKind::Val(impl_ty_to_ty(&t))
                };
            }
            FnArg::Typed(pt) => {
                let tstr = ts(&pt.ty).replace(' ', "");
                if tstr.contains("Arena<T>") {
                    continue;
                }
                let name = match &*pt.pat {
                    Pat::Ident(i) => i.ident.to_string(),
                    _ => "_".into(),
                };
                // the `&Node<T>` handed to get_node_id is looked at as an address only
                let ty = if key == "Arena::get_node_id" && tstr == "&Node<T>" { Ty::Addr } else { ty_of(&pt.ty) };
                params.push((name, ty));
            }
        }
    }
    let ret = match &f.sig.output {
        ReturnType::Default => Ty::Unit,
        ReturnType::Type(_, t) => {
            let s = ts(t).replace(' ', "");
            if s == "Self" {
                impl_ty_to_ty(f.impl_ty.as_deref().unwrap_or(""))
            } else if s == "Option<Self>" {
                Ty::opt(impl_ty_to_ty(f.impl_ty.as_deref().unwrap_or("")))
            } else if s == "Option<Self::Item>" {
                match f.impl_ty.as_deref() {
                    Some("DeArm") | Some("IterArm") => Ty::opt(Ty::NodeId),
                    Some("Traverse") | Some("ReverseTraverse") => Ty::opt(Ty::Edge),
                    _ => Ty::Unknown,
                }
            } else {
                ty_of(t)
            }
        }
    };
    Sig { coq: format!("g_{}", key.replace("::", "_")), self_kind, params, ret, pure_fn: false }
}

/// any `#[cfg(..)]` / `#[cfg_attr(..)]` inside a translated function means the function is not ONE function
struct CfgInside(Option<String>);
impl<'ast> syn::visit::Visit<'ast> for CfgInside {
    fn visit_attribute(&mut self, a: &'ast Attribute) {
        let s = ts(a).replace(' ', "");
        if s.starts_with("#[cfg") && self.0.is_none() {
            self.0 = Some(s);
        }
    }
}

fn translate(key: &str, f: &FnSrc, sigs: &HashMap<String, Sig>) -> R<(String, bool)> {
    let mut ci = CfgInside(None);
    syn::visit::Visit::visit_block(&mut ci, &f.block);
    if let Some(a) = ci.0 {
        return Err(format!("conditional compilation inside the function: {}", a));
    }
    if let Some(a) = &f.cfg {
        return Err(format!("the function itself is conditionally compiled: {}", a));
    }
    let mut cx = Cx::new(sigs.clone(), key);
    let sig = cx.cur.clone();
    let mut binders = vec!["(dbg : bool)".to_string()];
    match &sig.self_kind {
        SelfKind::Val(t) | SelfKind::MutVal(t) => {
            if *t == Ty::Unknown {
                return Err("receiver of unknown type".into());
            }
            binders.push(format!("(v_self : {})", t.coq()));
            if let SelfKind::Val(_) = sig.self_kind {
                cx.declare("self", Bnd::Val { term: "v_self".into(), ty: t.clone() });
            }
        }
        _ => {}
    }
    for (n, t) in &sig.params {
        if *t == Ty::Unknown {
            return Err(format!("parameter {} of unsupported type", n));
        }
        let cn = format!("v_{}", sanitize(n));
        cx.declare(n, Bnd::Val { term: cn.clone(), ty: t.clone() });
        binders.push(format!("({} : {})", cn, t.coq()));
    }
    if sig.ret == Ty::Unknown {
        return Err("unsupported return type".into());
    }
    let (code, _ty, _d) = cx.block(&f.block, &Tail::FnRet)?;
    for fp in &cx.fun_params {
        binders.insert(1, format!("({} : node -> option nid)", fp));
    }
    if cx.layout_params {
        binders.insert(1, "(v_base v_size : Z)".to_string());
    }
    let mut out = String::new();
    for l in &cx.lifted {
        out += l;
        out += "\n";
    }
    // a function of the pretty printer without effects is emitted as a plain function
    if key.starts_with("Indent") && cx.lifted.is_empty() {
        if let Some(t) = code.as_pure() {
            let b: Vec<String> = binders.iter().filter(|x| *x != "(dbg : bool)").cloned().collect();
            out += &format!("Definition {} {} : {} :=\n  {}.\n", sig.coq, b.join(" "), sig.coq_ret().coq(), t);
            return Ok((out, true));
        }
    }
    out += &format!("Definition {} {} : M {} :=\n{}.\n", sig.coq, binders.join(" "), sig.coq_ret().coq(), code.print(2));
    Ok((out, false))
}

/// the Index / IndexMut impls are read syntactically: arena[id] must mean self.nodes[id.index0()]
fn check_index_impls(file: &File) -> R<()> {
    let mut seen = 0;
    for it in &file.items {
        if let Item::Impl(im) = it {
            if let Some((_, p, _)) = &im.trait_ {
                let tn = path_str(p);
                if tn == "Index" || tn == "IndexMut" {
                    for ii in &im.items {
                        if let ImplItem::Fn(f) = ii {
                            let body = ts(&f.block).replace(' ', "");
                            let want = if tn == "Index" { "{&self.nodes[node.index0()]}" } else { "{&mutself.nodes[node.index0()]}" };
                            if body != want {
                                return Err(format!("{} impl for Arena changed: {}", tn, body));
                            }
                            seen += 1;
                        }
                    }
                }
            }
        }
    }
    if seen != 2 {
        return Err(format!("expected Index and IndexMut impls for Arena, found {}", seen));
    }
    Ok(())
}

fn main() {
    let args: Vec<String> = std::env::args().collect();
    if args.len() != 3 {
        eprintln!("usage: rs2coq <src-dir> <out-dir>");
        std::process::exit(2);
    }
    let (src, outdir) = (&args[1], &args[2]);
    let mut fns: HashMap<String, FnSrc> = HashMap::new();
    let mut index_ok: R<()> = Err("arena.rs not read".into());
    for name in ["id.rs", "relations.rs", "siblings_range.rs", "arena.rs", "node.rs", "traverse.rs", "debug_pretty_print.rs"] {
        let path = format!("{}/{}", src, name);
        let text = std::fs::read_to_string(&path).unwrap_or_else(|e| panic!("{}: {}", path, e));
        match syn::parse_file(&text) {
            Ok(file) => {
                collect(&file, &mut fns);
                if name == "traverse.rs" {
                    collect_invocations(&file, &mut fns);
                }
                if name == "arena.rs" {
                    index_ok = check_index_impls(&file);
                }
            }
            Err(e) => eprintln!("rs2coq: cannot parse {}: {}", path, e),
        }
    }
    // inventory over every source file of the crate
    let mut inv_files = vec![];
    for name in ["arena.rs", "debug_pretty_print.rs", "error.rs", "id.rs", "lib.rs", "node.rs", "relations.rs", "siblings_range.rs", "traverse.rs"] {
        let path = format!("{}/{}", src, name);
        if let Ok(text) = std::fs::read_to_string(&path) {
            if let Ok(file) = syn::parse_file(&text) {
                inv_files.push((name.to_string(), file));
            }
        }
    }
    // the proc-macro crate next to indextree/
    if let Ok(text) = std::fs::read_to_string(format!("{}/../../indextree-macros/src/lib.rs", src)) {
        if let Ok(file) = syn::parse_file(&text) {
            inv_files.push(("macros_lib.rs".to_string(), file));
        }
    }
    // the cargo manifests (features, dependencies, profiles): pinned line by line
    let mut cargo_rows = vec![];
    for (label, rel) in [("workspace Cargo.toml", "../../Cargo.toml"), ("indextree/Cargo.toml", "../Cargo.toml"), ("indextree-macros/Cargo.toml", "../../indextree-macros/Cargo.toml")] {
        let lines: Vec<String> = std::fs::read_to_string(format!("{}/{}", src, rel))
            .map(|t| t.lines().map(|l| l.split_whitespace().collect::<Vec<_>>().join(" ")).filter(|l| !l.is_empty() && !l.starts_with('#'))
                .filter(|l| !["keywords", "authors", "repository", "homepage", "documentation", "description", "categories", "readme", "license"].iter().any(|k| l.starts_with(&format!("{} =", k))))
                .collect())
            .unwrap_or_else(|_| vec!["<missing>".to_string()]);
        cargo_rows.push((label.to_string(), lines));
    }
    // the set of source files of the two crates
    let mut file_rows = vec![];
    for (label, rel) in [("indextree/src", "."), ("indextree-macros/src", "../../indextree-macros/src")] {
        let mut names: Vec<String> = std::fs::read_dir(format!("{}/{}", src, rel))
            .map(|d| d.filter_map(|e| e.ok()).map(|e| e.file_name().to_string_lossy().to_string()).collect())
            .unwrap_or_default();
        names.sort();
        file_rows.push((label.to_string(), names));
    }
    let has_build_rs = ["../build.rs", "../../indextree-macros/build.rs"].iter().any(|p| std::path::Path::new(&format!("{}/{}", src, p)).exists());
    file_rows.push(("build scripts".to_string(), if has_build_rs { vec!["present".to_string()] } else { vec![] }));
    let inv_out = inv::emit(&inv_files) + &inv::emit_rows("cargo", &cargo_rows) + &inv::emit_rows("files", &file_rows);
    let inv_path = format!("{}/GenInventory.v", outdir);
    if std::fs::read_to_string(&inv_path).map(|old| old != inv_out).unwrap_or(true) {
        std::fs::write(&inv_path, inv_out).unwrap();
    }
    let mut sigs: HashMap<String, Sig> = HashMap::new();
    for (_, _, keys) in PLAN {
        for k in *keys {
            if let Some(f) = fns.get(*k) {
                sigs.insert(k.to_string(), mk_sig(k, f));
            }
        }
    }
    let mut failures = 0;
    for (file, imports, keys) in PLAN {
        let mut out = format!("(* GENERATED by rs2coq from {}/*.rs on every run — do not edit.\n   One definition per Rust function; see DESIGN.md section 5.1b for the translation rules. *)\nFrom Coq Require Import String.\n{}\nOpen Scope mon_scope.\n\n", src, imports);
        for k in *keys {
            let coqname = format!("g_{}", k.replace("::", "_"));
            let r = match fns.get(*k) {
                None => Err("function not found in the sources".to_string()),
                Some(_) if fns.contains_key(&format!("{}#dup", k)) => Err("function defined more than once".to_string()),
                Some(f) => {
                    if k.starts_with("Arena::") || *file == "GenRel" || *file == "GenOps" {
                        match &index_ok {
                            Ok(()) => translate(k, f, &sigs),
                            Err(e) => Err(e.clone()),
                        }
                    } else {
                        translate(k, f, &sigs)
                    }
                }
            };
            match r {
                Ok((t, pure_fn)) => {
                    if pure_fn {
                        if let Some(sg) = sigs.get_mut(*k) {
                            sg.pure_fn = true;
                        }
                    }
                    out += &format!("(* {} *)\n{}\n", k, t);
                }
                Err(e) => {
                    failures += 1;
                    eprintln!("rs2coq: {}: {}", k, e);
                    out += &format!("(* {} : NOT TRANSLATED: {} *)\nDefinition {} : unsupported := Unsupported \"{}\"%string.\n\n", k, e.replace("*)", "* )"), coqname, e.replace('"', "'").replace('\n', " "));
                }
            }
        }
        let path = format!("{}/{}.v", outdir, file);
        // keep the timestamp when nothing changed (no needless rebuild of the proofs)
        if std::fs::read_to_string(&path).map(|old| old != out).unwrap_or(true) {
            std::fs::write(&path, out).unwrap();
        }
    }
    eprintln!("rs2coq: {} functions not translated", failures);
}
