//! Translation context: environments, signatures of translated functions, fresh names.
use crate::code::*;
use std::collections::HashMap;

pub type R<T> = Result<T, String>;

#[derive(Clone, Debug)]
pub enum Bnd {
    /// a value held in a Coq variable / term
    Val { term: String, ty: Ty },
    /// a local holding a function `&Node -> Option<NodeId>` (a macro parameter): applied as a Coq function
    Fun { term: String },
    /// an alias of the arena slot with the given (nat) index term: `&mut arena[i]`, `&mut self.nodes[i]`
    Slot { idx: String },
}

/// what `self` is in the function being translated
#[derive(Clone, Debug, PartialEq)]
pub enum SelfKind {
    None,
    Arena,            // &self / &mut self of Arena<T>: the monad state
    Val(Ty),          // by value or & : a plain value
    MutVal(Ty),       // &mut self of a value type (NodeStamp, Node): threaded, returned
}

#[derive(Clone, Debug)]
pub struct Sig {
    pub coq: String,
    pub self_kind: SelfKind,
    pub params: Vec<(String, Ty)>, // excluding self and the arena
    pub ret: Ty,                   // Rust return type
    pub pure_fn: bool,             // emitted as a plain function (no monad): calls are terms
}

impl Sig {
    /// the Coq result type: &mut self methods of value types also return the new self
    pub fn coq_ret(&self) -> Ty {
        match &self.self_kind {
            SelfKind::MutVal(t) => {
                if self.ret == Ty::Unit {
                    t.clone()
                } else {
                    Ty::Tup(vec![t.clone(), self.ret.clone()])
                }
            }
            _ => self.ret.clone(),
        }
    }
}

pub struct Cx {
    pub scopes: Vec<HashMap<String, Bnd>>,
    pub fresh: usize,
    pub sigs: HashMap<String, Sig>, // key: "Type::fn" or "fn"
    pub cur: Sig,
    pub cur_key: String,
    pub lifted: Vec<String>, // loop fixpoints lifted out of the current function
    pub self_var: String,    // current Coq term for a MutVal self
    pub fun_params: Vec<String>, // function-valued macro parameters used by the body
    pub layout_params: bool,     // the body talks about addresses: (v_base v_size : Z) are parameters
}

impl Cx {
    pub fn new(sigs: HashMap<String, Sig>, cur_key: &str) -> Cx {
        let cur = sigs[cur_key].clone();
        Cx { scopes: vec![HashMap::new()], fresh: 0, sigs, cur, cur_key: cur_key.to_string(), lifted: vec![], self_var: "v_self".into(), fun_params: vec![], layout_params: false }
    }
    pub fn push(&mut self) {
        self.scopes.push(HashMap::new());
    }
    pub fn pop(&mut self) {
        self.scopes.pop();
    }
    pub fn lookup(&self, x: &str) -> Option<&Bnd> {
        for s in self.scopes.iter().rev() {
            if let Some(b) = s.get(x) {
                return Some(b);
            }
        }
        None
    }
    pub fn declare(&mut self, x: &str, b: Bnd) {
        self.scopes.last_mut().unwrap().insert(x.to_string(), b);
    }
    /// rebind an existing variable in the scope where it lives
    pub fn assign(&mut self, x: &str, b: Bnd) -> R<()> {
        for s in self.scopes.iter_mut().rev() {
            if s.contains_key(x) {
                s.insert(x.to_string(), b);
                return Ok(());
            }
        }
        Err(format!("assignment to unknown variable {}", x))
    }
    pub fn gensym(&mut self, base: &str) -> String {
        self.fresh += 1;
        format!("{}{}", base, self.fresh)
    }
    /// declare a Rust variable holding a fresh Coq variable; returns the Coq name
    pub fn declare_val(&mut self, x: &str, ty: Ty) -> String {
        let n = self.gensym(&format!("v_{}_", sanitize(x)));
        self.declare(x, Bnd::Val { term: n.clone(), ty });
        n
    }
    /// names of all variables visible (for free-variable analysis of lifted loops)
    pub fn visible(&self) -> Vec<(String, Bnd)> {
        let mut m: HashMap<String, Bnd> = HashMap::new();
        for s in &self.scopes {
            for (k, v) in s {
                m.insert(k.clone(), v.clone());
            }
        }
        let mut v: Vec<_> = m.into_iter().collect();
        v.sort_by(|a, b| a.0.cmp(&b.0));
        v
    }
}

pub fn sanitize(x: &str) -> String {
    x.chars().map(|c| if c.is_alphanumeric() || c == '_' { c } else { '_' }).collect()
}

pub fn field_of(name: &str) -> Option<(&'static str, &'static str)> {
    // Rust field -> (model projection, fld constructor)
    Some(match name {
        "parent" => ("parent", "Fparent"),
        "previous_sibling" => ("prev", "Fprev"),
        "next_sibling" => ("next", "Fnext"),
        "first_child" => ("first", "Ffirst"),
        "last_child" => ("last", "Flast"),
        _ => return None,
    })
}
