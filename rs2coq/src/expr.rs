//! Part 2: expressions (everything but calls).
use crate::code::*;
use crate::cx::*;
use crate::tr::*;
use crate::stmts::Tail;
use syn::*;

pub fn lit_as(t: &str, ty: &Ty) -> String {
    if t.chars().all(|c| c.is_ascii_digit()) {
        match ty {
            Ty::I16 | Ty::Stamp => format!("{}%Z", t),
            _ => format!("{}%nat", t),
        }
    } else {
        t.to_string()
    }
}

impl Cx {
    /// compile a pattern against a scrutinee of type `ty`; declares the bound variables
    pub fn pat(&mut self, p: &Pat, ty: &Ty) -> R<String> {
        match p {
            Pat::Ident(i) if i.ident == "None" => Ok("None".into()),
            Pat::Ident(i) => {
                let n = self.declare_val(&i.ident.to_string(), ty.clone());
                Ok(n)
            }
            Pat::Wild(_) => Ok("_".into()),
            Pat::Lit(l) => match &l.lit {
                Lit::Bool(b) => Ok(if b.value { "true".into() } else { "false".into() }),
                _ => Err(format!("unsupported literal pattern {}", ts(p))),
            },
            Pat::Paren(p) => self.pat(&p.pat, ty),
            Pat::Reference(r) => self.pat(&r.pat, ty),
            Pat::Type(t) => {
                let t2 = unify(&ty_of(&t.ty), ty);
                self.pat(&t.pat, &t2)
            }
            Pat::Tuple(t) => {
                let tys: Vec<Ty> = match ty {
                    Ty::Tup(ts) if ts.len() == t.elems.len() => ts.clone(),
                    _ => vec![Ty::Unknown; t.elems.len()],
                };
                let mut parts = vec![];
                for (q, qt) in t.elems.iter().zip(tys.iter()) {
                    parts.push(self.pat(q, qt)?);
                }
                Ok(format!("({})", parts.join(", ")))
            }
            Pat::Path(p) => {
                let s = path_str(&p.path);
                match s.as_str() {
                    "None" => Ok("None".into()),
                    _ => Err(format!("unsupported path pattern {}", s)),
                }
            }
            Pat::TupleStruct(t) => {
                let s = path_str(&t.path);
                if t.elems.len() != 1 {
                    return Err(format!("unsupported pattern {}", ts(p)));
                }
                let (ctor, inner) = match (s.as_str(), ty) {
                    ("Some", Ty::Opt(i)) => ("Some", (**i).clone()),
                    ("Some", _) => ("Some", Ty::Unknown),
                    ("NodeEdge::Start", _) => ("Start", Ty::NodeId),
                    ("NodeEdge::End", _) => ("End_", Ty::NodeId),
                    ("NodeData::NextFree", _) => ("NextFree", Ty::opt(Ty::Nat)),
                    ("NodeData::Data", _) => ("Data", Ty::Payload),
                    _ => return Err(format!("unsupported pattern constructor {}", s)),
                };
                let q = self.pat(&t.elems[0], &inner)?;
                Ok(format!("{} {}", ctor, q))
            }
            _ => Err(format!("unsupported pattern `{}`", ts(p))),
        }
    }

    pub fn expr(&mut self, e: &Expr, pres: &mut Vec<Pre>) -> R<(String, Ty)> {
        match e {
            Expr::Paren(p) => self.expr(&p.expr, pres),
            Expr::Group(p) => self.expr(&p.expr, pres),
            Expr::Reference(r) => self.expr(&r.expr, pres),
            Expr::Lit(l) => match &l.lit {
                Lit::Int(i) => Ok((i.base10_digits().to_string(), Ty::Unknown)),
                Lit::Bool(b) => Ok((if b.value { "true".into() } else { "false".into() }, Ty::Bool)),
                Lit::Str(st) => Ok((format!("[{}]", st.value().bytes().map(|b| format!("{}%N", b)).collect::<Vec<_>>().join("; ")), Ty::Str)),
                Lit::Char(c) => Ok((format!("{}%N", c.value() as u32), Ty::Char)),
                _ => Err(format!("unsupported literal {}", ts(e))),
            },
            Expr::Path(p) => {
                let name = path_str(&p.path);
                match name.as_str() {
                    "None" => return Ok(("None".into(), Ty::opt(Ty::Unknown))),
                    "i16::MAX" => return Ok(("i16_max".into(), Ty::I16)),
                    "i16::MIN" => return Ok(("i16_min".into(), Ty::I16)),
                    "LineState::BeforeIndent" => return Ok(("BeforeIndent".into(), Ty::LState)),
                    "LineState::PartialIndent" => return Ok(("PartialIndent".into(), Ty::LState)),
                    "LineState::Content" => return Ok(("Content".into(), Ty::LState)),
                    "self" => {
                        return match self.cur.self_kind.clone() {
                            SelfKind::Val(t) => Ok(("v_self".into(), t)),
                            SelfKind::MutVal(t) => Ok((self.self_var.clone(), t)),
                            _ => Err("`self` used as a value in an Arena method".into()),
                        }
                    }
                    _ => {}
                }
                match self.lookup(&name).cloned() {
                    Some(Bnd::Val { term, ty }) => Ok((term, ty)),
                    Some(Bnd::Slot { idx }) => self.read_place(&Pl::Slot(idx), pres),
                    Some(Bnd::Fun { term }) => Ok((term, Ty::Unknown)),
                    None => Err(format!("unknown name `{}`", name)),
                }
            }
            Expr::Tuple(t) => {
                if t.elems.is_empty() {
                    return Ok(("tt".into(), Ty::Unit));
                }
                let mut terms = vec![];
                let mut tys = vec![];
                for x in &t.elems {
                    let (a, b) = self.expr(x, pres)?;
                    terms.push(a);
                    tys.push(b);
                }
                Ok((format!("({})", terms.join(", ")), Ty::Tup(tys)))
            }
            Expr::Unary(u) => match u.op {
                UnOp::Not(_) => {
                    let (t, ty) = self.expr(&u.expr, pres)?;
                    if ty != Ty::Bool {
                        return Err(format!("`!` on {:?}", ty));
                    }
                    Ok((format!("negb {}", paren(&t)), Ty::Bool))
                }
                UnOp::Neg(_) => {
                    let (t, ty) = self.expr(&u.expr, pres)?;
                    if ty != Ty::I16 && ty != Ty::Stamp {
                        return Err(format!("unary `-` on {:?}", ty));
                    }
                    let v = self.fresh_bind("z_", Code::Raw(format!("liftres (arith16 dbg (- {}))", paren(&t))), pres);
                    Ok((v, Ty::I16))
                }
                UnOp::Deref(_) => self.expr(&u.expr, pres),
                _ => Err(format!("unsupported unary {}", ts(e))),
            },
            Expr::Binary(b) => self.binary(b, pres),
            Expr::Cast(c) => {
                // `node as *const Node<T>` and `ptr as usize`: the same number
                let (t, ty) = self.expr(&c.expr, pres)?;
                let target = ts(&c.ty).replace(' ', "");
                match (&ty, target.as_str()) {
                    (Ty::Addr, "*constNode<T>") | (Ty::Addr, "usize") => Ok((t, Ty::Addr)),
                    _ => Err(format!("unsupported cast `{}`", ts(e))),
                }
            }
            Expr::Field(f) => {
                if let Some(pl) = self.place(e, pres)? {
                    return self.read_place(&pl, pres);
                }
                let fname = match &f.member {
                    Member::Named(i) => i.to_string(),
                    Member::Unnamed(i) => i.index.to_string(),
                };
                let (bt, bty) = self.expr(&f.base, pres)?;
                match (&bty, fname.as_str()) {
                    (Ty::IState, "is_last_item") => Ok((format!("fst {}", paren(&bt)), Ty::Bool)),
                    (Ty::IState, "is_first_line") => Ok((format!("snd {}", paren(&bt)), Ty::Bool)),
                    (Ty::AddrRange, "start") => Ok((format!("fst {}", paren(&bt)), Ty::Addr)),
                    (Ty::AddrRange, "end") => Ok((format!("snd {}", paren(&bt)), Ty::Addr)),
                    (Ty::TravSt, "root") => Ok((format!("fst {}", paren(&bt)), Ty::NodeId)),
                    (Ty::TravSt, "next") => Ok((format!("snd {}", paren(&bt)), Ty::opt(Ty::Edge))),
                    (Ty::Range, "first") => Ok((format!("fst {}", paren(&bt)), Ty::NodeId)),
                    (Ty::Range, "last") => Ok((format!("snd {}", paren(&bt)), Ty::NodeId)),
                    (Ty::Node, _) => self.node_field_read(&bt, &fname),
                    (Ty::NodeId, "stamp") => Ok((format!("gen {}", paren(&bt)), Ty::Stamp)),
                    (Ty::NodeId, "index1") => Ok((format!("S (idx {})", paren(&bt)), Ty::NzNat)),
                    (Ty::Stamp, "0") | (Ty::I16, "0") => Ok((bt, Ty::I16)),
                    _ => Err(format!("unsupported field access `{}` on {:?}", ts(e), bty)),
                }
            }
            Expr::Index(ix) if matches!(&*ix.index, Expr::Range(_)) => {
                // &x[..n] / &x[n..] on a str or a slice of indent states
                let r = match &*ix.index {
                    Expr::Range(r) => r,
                    _ => unreachable!(),
                };
                let (b, bty) = self.expr(&ix.expr, pres)?;
                if bty != Ty::Str && bty != Ty::ListIState {
                    return Err(format!("range indexing of {:?}", bty));
                }
                if !matches!(r.limits, RangeLimits::HalfOpen(_)) {
                    return Err("inclusive range".into());
                }
                match (&r.start, &r.end) {
                    (None, Some(hi)) => {
                        let (h, _) = self.expr(hi, pres)?;
                        Ok((format!("firstn {} {}", paren(&lit_as(&h, &Ty::Nat)), paren(&b)), bty))
                    }
                    (Some(lo), None) => {
                        let (l, _) = self.expr(lo, pres)?;
                        Ok((format!("skipn {} {}", paren(&lit_as(&l, &Ty::Nat)), paren(&b)), bty))
                    }
                    _ => Err("unsupported range form".into()),
                }
            }
            Expr::Index(ix) if ts(&ix.expr).replace(' ', "") == "self.indents" => {
                let (l, _) = self.expr(&ix.expr, pres)?;
                let (i, ity) = self.expr(&ix.index, pres)?;
                if ity != Ty::Nat {
                    return Err("self.indents[..] with a non-usize index".into());
                }
                let x = self.gensym("x_");
                pres.push(Pre::Guard(format!("nth_error {} {}", paren(&l), paren(&i)), format!("Some {}", x), vec![("None".into(), Code::Panic("P_INDEX"))]));
                Ok((x, Ty::IState))
            }
            Expr::Index(_) => match self.place(e, pres)? {
                Some(pl) => self.read_place(&pl, pres),
                None => Err(format!("unsupported index expression {}", ts(e))),
            },
            Expr::Call(c) => self.call(c, pres),
            Expr::MethodCall(m) => self.method(m, pres),
            Expr::Macro(m) => self.macro_expr(&m.mac, pres),
            Expr::Try(t) => {
                let (v, ty) = self.expr(&t.expr, pres)?;
                match (&ty, &self.cur.ret) {
                    // fmt::Result of the sink: the model's sink never fails
                    (Ty::Unit, _) => Ok(("tt".into(), Ty::Unit)),
                    (Ty::CRes, Ty::CRes) => {
                        let e = self.gensym("e_");
                        pres.push(Pre::Guard(v, "COk".into(), vec![(format!("CErr {}", e), self.fn_return_code(&format!("CErr {}", e)))]));
                        Ok(("tt".into(), Ty::Unit))
                    }
                    (Ty::Opt(inner), Ty::Opt(_)) => {
                        let x = self.gensym("x_");
                        pres.push(Pre::Guard(v, format!("Some {}", x), vec![("None".into(), self.fn_return_code("None"))]));
                        Ok((x, (**inner).clone()))
                    }
                    _ => Err(format!("unsupported `?` on {:?} in function returning {:?}", ty, self.cur.ret)),
                }
            }
            Expr::Struct(s) => self.struct_lit(s, pres),
            Expr::If(_) | Expr::Match(_) | Expr::Block(_) => {
                let (code, ty, _div) = self.ctrl(e, &Tail::Value)?;
                if let Code::Ret(t) = &code {
                    return Ok((t.clone(), ty));
                }
                if ty == Ty::Unit {
                    pres.push(Pre::Seq(code));
                    return Ok(("tt".into(), Ty::Unit));
                }
                let v = self.gensym("r_");
                let pat = v.clone();
                pres.push(Pre::Bind(pat, code));
                Ok((v, ty))
            }
            _ => Err(format!("unsupported expression `{}`", ts(e))),
        }
    }

    /// code that returns `v` (a value of the Rust return type) from the current function
    pub fn fn_return_code(&self, v: &str) -> Code {
        match &self.cur.self_kind {
            SelfKind::MutVal(_) => {
                if self.cur.ret == Ty::Unit {
                    Code::Ret(self.self_var.clone())
                } else {
                    Code::Ret(format!("({}, {})", self.self_var, v))
                }
            }
            _ => Code::Ret(v.to_string()),
        }
    }

    fn binary(&mut self, b: &ExprBinary, pres: &mut Vec<Pre>) -> R<(String, Ty)> {
        match b.op {
            BinOp::Or(_) | BinOp::And(_) => {
                let is_or = matches!(b.op, BinOp::Or(_));
                let (l, lt) = self.expr(&b.left, pres)?;
                let mut rp = vec![];
                let (r, rt) = self.expr(&b.right, &mut rp)?;
                if lt != Ty::Bool || rt != Ty::Bool {
                    return Err(format!("boolean operator on {:?}, {:?}", lt, rt));
                }
                if rp.is_empty() {
                    return Ok((format!("{} {} {}", paren(&l), if is_or { "||" } else { "&&" }, paren(&r)), Ty::Bool));
                }
                let rhs = wrap(rp, Code::Ret(r));
                let c = if is_or {
                    Code::If(l, Box::new(Code::Ret("true".into())), Box::new(rhs))
                } else {
                    Code::If(l, Box::new(rhs), Box::new(Code::Ret("false".into())))
                };
                let v = self.fresh_bind("b_", c, pres);
                Ok((v, Ty::Bool))
            }
            _ => {
                let (l, lt) = self.expr(&b.left, pres)?;
                let (r, rt) = self.expr(&b.right, pres)?;
                let ty = unify(&lt, &rt);
                let l = lit_as(&l, &ty);
                let r = lit_as(&r, &ty);
                match b.op {
                    BinOp::Eq(_) => Ok((eqb(&ty, &l, &r)?, Ty::Bool)),
                    BinOp::Ne(_) => Ok((format!("negb ({})", eqb(&ty, &l, &r)?), Ty::Bool)),
                    BinOp::Lt(_) | BinOp::Gt(_) | BinOp::Le(_) | BinOp::Ge(_) => {
                        let (a, c) = if matches!(b.op, BinOp::Lt(_) | BinOp::Le(_)) { (l, r) } else { (r, l) };
                        let strict = matches!(b.op, BinOp::Lt(_) | BinOp::Gt(_));
                        let f = match (&ty, strict) {
                            (Ty::I16, true) | (Ty::Stamp, true) => "Z.ltb",
                            (Ty::I16, false) | (Ty::Stamp, false) => "Z.leb",
                            (Ty::Nat, true) | (Ty::NzNat, true) => "Nat.ltb",
                            (Ty::Nat, false) | (Ty::NzNat, false) => "Nat.leb",
                            _ => return Err(format!("comparison on {:?}", ty)),
                        };
                        Ok((format!("{} {} {}", f, paren(&a), paren(&c)), Ty::Bool))
                    }
                    BinOp::Div(_) if ty == Ty::Addr => {
                        // (address difference) / size_of::<Node<T>>() : an index
                        if r != "v_size" {
                            return Err("division of an address by something other than size_of::<Node<T>>()".into());
                        }
                        Ok((format!("Z.to_nat (Z.div {} v_size)", paren(&l)), Ty::Nat))
                    }
                    BinOp::Sub(_) if ty == Ty::Addr => {
                        let v = self.fresh_bind("z_", Code::Raw(format!("usub dbg {} {}", paren(&l), paren(&r))), pres);
                        Ok((v, Ty::Addr))
                    }
                    BinOp::Sub(_) | BinOp::Add(_) => {
                        let op = if matches!(b.op, BinOp::Sub(_)) { "-" } else { "+" };
                        match ty {
                            Ty::I16 | Ty::Stamp => {
                                let v = self.fresh_bind("z_", Code::Raw(format!("liftres (arith16 dbg ({} {} {}))", paren(&l), op, paren(&r))), pres);
                                Ok((v, Ty::I16))
                            }
                            Ty::Nat | Ty::NzNat => Ok((format!("({} {} {})%nat", paren(&l), op, paren(&r)), Ty::Nat)),
                            _ => Err(format!("arithmetic on {:?}", ty)),
                        }
                    }
                    _ => Err(format!("unsupported operator in `{}`", ts(b))),
                }
            }
        }
    }

    fn struct_lit(&mut self, s: &ExprStruct, pres: &mut Vec<Pre>) -> R<(String, Ty)> {
        let name = path_str(&s.path);
        let mut fields = std::collections::HashMap::new();
        for f in &s.fields {
            let fname = match &f.member {
                Member::Named(i) => i.to_string(),
                Member::Unnamed(i) => i.index.to_string(),
            };
            let (t, ty) = self.expr(&f.expr, pres)?;
            fields.insert(fname, (t, ty));
        }
        let get = |k: &str| -> R<String> { fields.get(k).map(|x| x.0.clone()).ok_or(format!("struct literal {} lacks field {}", name, k)) };
        let target = if name == "Self" {
            match self.cur_key.split("::").next().unwrap_or("") {
                "SiblingsRange" | "DetachedSiblingsRange" => "Range",
                "Node" => "Node",
                "NodeId" => "NodeId",
                x => return Err(format!("struct literal Self in {}", x)),
            }
        } else {
            match name.as_str() {
                "SiblingsRange" | "DetachedSiblingsRange" => "Range",
                "NodeId" => "NodeId",
                "Node" => "Node",
                "IndentedBlockState" => "IState",
                _ => return Err(format!("unsupported struct literal {}", name)),
            }
        };
        match target {
            "IState" => {
                if fields.len() != 2 {
                    return Err("IndentedBlockState literal".into());
                }
                Ok((format!("({}, {})", get("is_last_item")?, get("is_first_line")?), Ty::IState))
            }
            "Range" => {
                if fields.len() != 2 {
                    return Err("range literal".into());
                }
                Ok((format!("({}, {})", get("first")?, get("last")?), Ty::Range))
            }
            "NodeId" => {
                if fields.len() != 2 {
                    return Err("NodeId literal".into());
                }
                Ok((format!("mkId (pred {}) {}", paren(&get("index1")?), paren(&get("stamp")?)), Ty::NodeId))
            }
            "Node" => {
                if fields.len() != 7 {
                    return Err("Node literal".into());
                }
                Ok((
                    format!(
                        "mkNode {} {} {} {} {} {} {}",
                        paren(&get("parent")?),
                        paren(&get("previous_sibling")?),
                        paren(&get("next_sibling")?),
                        paren(&get("first_child")?),
                        paren(&get("last_child")?),
                        paren(&get("stamp")?),
                        paren(&get("data")?)
                    ),
                    Ty::Node,
                ))
            }
            _ => unreachable!(),
        }
    }
}
