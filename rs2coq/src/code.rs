//! Target language: monadic Gallina terms over the model's vocabulary (Base.v: M, bind, ret, rd, upd ...).

#[derive(Clone, Debug, PartialEq)]
pub enum Ty {
    NodeId,
    Node,
    Bool,
    Nat,
    NzNat, // NonZeroUsize, kept 1-based as nat
    I16,   // raw i16 (self.0 of NodeStamp)
    Stamp, // NodeStamp (same Z)
    Unit,
    Opt(Box<Ty>),
    Tup(Vec<Ty>),
    CRes,    // Result<(), ConsistencyError>
    NRes,    // Result<(), NodeError>
    Range,   // SiblingsRange / DetachedSiblingsRange = (first, last)
    Edge,    // NodeEdge
    Data,    // NodeData<T>
    Payload, // T
    ListNid, // Vec<NodeId>
    IterSt,  // Iter: the cursor `node`
    DeSt,    // DoubleEndedIter: (head, tail)
    TravSt,  // Traverse / ReverseTraverse: (root, next)
    IState,  // IndentedBlockState (is_last_item, is_first_line)
    LState,  // LineState
    Str,     // &str as bytes
    Char,    // a char (its code)
    Writer,  // IndentWriter
    ListIState,
    URes,    // Result<(), ()> as bool (true = Ok)
    Addr,    // a machine address / a usize obtained from one (Z)
    AddrRange, // Range<*const Node<T>>: (start, end)
    Never,
    Unknown,
}

impl Ty {
    pub fn opt(t: Ty) -> Ty {
        Ty::Opt(Box::new(t))
    }
    pub fn coq(&self) -> String {
        match self {
            Ty::NodeId => "nid".into(),
            Ty::Node => "node".into(),
            Ty::Bool => "bool".into(),
            Ty::Nat | Ty::NzNat => "nat".into(),
            Ty::I16 | Ty::Stamp => "Z".into(),
            Ty::Unit => "unit".into(),
            Ty::Opt(t) => format!("(option {})", t.coq()),
            Ty::Tup(ts) => format!("({})%type", ts.iter().map(|t| t.coq()).collect::<Vec<_>>().join(" * ")),
            Ty::CRes => "cres".into(),
            Ty::NRes => "nres".into(),
            Ty::Range => "(nid * nid)%type".into(),
            Ty::Edge => "edge".into(),
            Ty::Data => "ndata".into(),
            Ty::Payload => "N".into(),
            Ty::ListNid => "(list nid)".into(),
            Ty::IterSt => "(option nid)".into(),
            Ty::DeSt => "(option nid * option nid)%type".into(),
            Ty::TravSt => "(nid * option edge)%type".into(),
            Ty::IState => "istate".into(),
            Ty::LState => "lstate".into(),
            Ty::Str => "(list N)".into(),
            Ty::Char => "N".into(),
            Ty::Writer => "gwriter".into(),
            Ty::ListIState => "(list istate)".into(),
            Ty::URes => "bool".into(),
            Ty::Addr => "Z".into(),
            Ty::AddrRange => "(Z * Z)%type".into(),
            Ty::Never => "unit".into(),
            Ty::Unknown => "unsupported".into(),
        }
    }
}

#[derive(Clone, Debug)]
pub enum Code {
    /// `ret t`
    Ret(String),
    /// a monadic term given verbatim
    Raw(String),
    /// `pat <- m ;; k`
    Bind(String, Box<Code>, Box<Code>),
    /// `m ;;; k`
    Seq(Box<Code>, Box<Code>),
    /// `let pat := t in k`
    Let(String, String, Box<Code>),
    If(String, Box<Code>, Box<Code>),
    Match(String, Vec<(String, Code)>),
    Panic(&'static str),
}

impl Code {
    pub fn bind(pat: &str, m: Code, k: Code) -> Code {
        // `x <- panic c ;; k` is `panic c` (the continuation never runs)
        if let Code::Panic(c) = &m {
            return Code::Panic(c);
        }
        Code::Bind(pat.to_string(), Box::new(m), Box::new(k))
    }
    pub fn seq(m: Code, k: Code) -> Code {
        // `ret tt ;;; k` is k
        if let Code::Ret(t) = &m {
            if t == "tt" {
                return k;
            }
        }
        if let Code::Panic(c) = &m {
            return Code::Panic(c);
        }
        Code::Seq(Box::new(m), Box::new(k))
    }
    /// the code as a pure term, if it has no effects (only ret / let / if / match)
    pub fn as_pure(&self) -> Option<String> {
        match self {
            Code::Ret(t) => Some(t.clone()),
            Code::Let(p, t, k) => {
                let pp = if p.starts_with('(') { format!("'{}", p) } else { p.clone() };
                Some(format!("let {} := {} in\n{}", pp, t, k.as_pure()?))
            }
            Code::If(c, a, b) => Some(format!("(if {} then {} else {})", c, a.as_pure()?, b.as_pure()?)),
            Code::Bind(p, m, k) => {
                let pp = if p.starts_with('(') { format!("'{}", p) } else { p.clone() };
                Some(format!("let {} := {} in\n{}", pp, m.as_pure()?, k.as_pure()?))
            }
            Code::Seq(m, k) => {
                let _ = m.as_pure()?;
                k.as_pure()
            }
            Code::Match(sc, arms) => {
                let mut o = format!("match {} with", sc);
                for (p, c) in arms {
                    o += &format!(" | {} => {}", p, c.as_pure()?);
                }
                Some(o + " end")
            }
            _ => None,
        }
    }

    pub fn print(&self, ind: usize) -> String {
        let pad = " ".repeat(ind);
        match self {
            Code::Ret(t) => format!("{}ret {}", pad, paren(t)),
            Code::Raw(t) => format!("{}{}", pad, t),
            Code::Panic(c) => format!("{}panic {}", pad, c),
            Code::Bind(p, m, k) => {
                let pp = if p.starts_with('(') { format!("'{}", p) } else { p.clone() };
                format!("{}{} <- {} ;;\n{}", pad, pp, m.print_inline(ind + 2), k.print(ind))
            }
            Code::Seq(m, k) => format!("{}{} ;;;\n{}", pad, m.print_inline(ind + 2), k.print(ind)),
            Code::Let(p, t, k) => {
                let pp = if p.starts_with('(') { format!("'{}", p) } else { p.clone() };
                format!("{}let {} := {} in\n{}", pad, pp, t, k.print(ind))
            }
            Code::If(c, a, b) => format!(
                "{}if {} then\n{}\n{}else\n{}",
                pad,
                c,
                a.print(ind + 2),
                pad,
                b.print(ind + 2)
            ),
            Code::Match(s, arms) => {
                let mut o = format!("{}match {} with\n", pad, s);
                for (p, c) in arms {
                    o += &format!("{}| {} =>\n{}\n", pad, p, c.print(ind + 4));
                }
                o += &format!("{}end", pad);
                o
            }
        }
    }
    /// printed as an operand (parenthesised when compound)
    pub fn print_inline(&self, ind: usize) -> String {
        match self {
            Code::Ret(_) | Code::Raw(_) | Code::Panic(_) => format!("({})", self.print(0)),
            _ => format!("(\n{}\n{})", self.print(ind + 2), " ".repeat(ind)),
        }
    }
}

pub fn paren(t: &str) -> String {
    let simple = t.chars().all(|c| c.is_alphanumeric() || c == '_' || c == '\'' || c == '.');
    if simple || (t.starts_with('(') && matching_outer(t)) {
        t.to_string()
    } else {
        format!("({})", t)
    }
}

fn matching_outer(t: &str) -> bool {
    // does the first '(' close at the very end?
    let mut depth = 0i32;
    for (i, c) in t.char_indices() {
        if c == '(' {
            depth += 1
        } else if c == ')' {
            depth -= 1;
            if depth == 0 {
                return i == t.len() - 1;
            }
        }
    }
    false
}
