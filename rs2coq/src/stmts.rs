//! Part 4: statements, control flow, loops.
use crate::calls::MatchesArgs;
use crate::code::*;
use crate::cx::*;
use crate::tr::*;
use syn::punctuated::Punctuated;
use syn::*;

#[derive(Clone, Debug)]
pub enum Tail {
    /// the block's value is the function's return value
    FnRet,
    /// the block's value is the value of the monadic term
    Value,
    /// statement position: the term returns the current values of these (Rust) variables
    Join(Vec<String>),
    /// end of a loop body: call the loop function again with the current values of these variables
    Loop(String, Vec<String>),
}

fn last_mut_var(i: &ExprIf) -> Option<String> {
    if let Expr::Let(l) = &*i.cond {
        if ts(&l.expr).replace(' ', "") == "self.indents.last_mut()" {
            if let Pat::TupleStruct(tsp) = &*l.pat {
                if path_str(&tsp.path) == "Some" {
                    if let Pat::Ident(v) = &tsp.elems[0] {
                        return Some(v.ident.to_string());
                    }
                }
            }
        }
    }
    None
}

fn always_returns_block(b: &Block) -> bool {
    b.stmts.last().map_or(false, always_returns_stmt)
}
fn always_returns_stmt(s: &Stmt) -> bool {
    match s {
        Stmt::Expr(e, _) => always_returns_expr(e),
        Stmt::Macro(m) => matches!(path_str(&m.mac.path).as_str(), "unreachable" | "panic"),
        _ => false,
    }
}
fn always_returns_expr(e: &Expr) -> bool {
    match e {
        Expr::Return(_) => true,
        Expr::Macro(m) => matches!(path_str(&m.mac.path).as_str(), "unreachable" | "panic"),
        Expr::Block(b) => always_returns_block(&b.block),
        Expr::If(i) => match &i.else_branch {
            Some((_, eb)) => always_returns_block(&i.then_branch) && always_returns_expr(eb),
            None => false,
        },
        _ => false,
    }
}

/// Rust locals (declared outside) that a piece of code assigns
struct Assigned(Vec<String>, Vec<String>); // (assigned, locally declared)
impl<'ast> visit::Visit<'ast> for Assigned {
    fn visit_expr_assign(&mut self, a: &'ast ExprAssign) {
        let mut l = &*a.left;
        while let Expr::Paren(p) = l {
            l = &*p.expr;
        }
        if let Expr::Path(p) = l {
            let n = path_str(&p.path);
            if !self.1.contains(&n) && !self.0.contains(&n) {
                self.0.push(n);
            }
        }
        visit::visit_expr_assign(self, a);
    }
    fn visit_local(&mut self, l: &'ast Local) {
        visit::visit_local(self, l);
        struct Names<'a>(&'a mut Vec<String>);
        impl<'ast, 'a> visit::Visit<'ast> for Names<'a> {
            fn visit_pat_ident(&mut self, p: &'ast PatIdent) {
                self.0.push(p.ident.to_string());
            }
        }
        visit::Visit::visit_pat(&mut Names(&mut self.1), &l.pat);
    }
}
fn assigned_in(blocks: &[&Block], extra: &[&Expr]) -> Vec<String> {
    let mut a = Assigned(vec![], vec![]);
    for b in blocks {
        let mut inner = Assigned(vec![], vec![]);
        visit::Visit::visit_block(&mut inner, b);
        for x in inner.0 {
            if !a.0.contains(&x) {
                a.0.push(x)
            }
        }
    }
    for e in extra {
        let mut inner = Assigned(vec![], vec![]);
        visit::Visit::visit_expr(&mut inner, e);
        for x in inner.0 {
            if !a.0.contains(&x) {
                a.0.push(x)
            }
        }
    }
    a.0
}

impl Cx {
    fn tail_code(&mut self, tail: &Tail, v: Option<(String, Ty)>) -> R<(Code, Ty)> {
        match tail {
            Tail::FnRet => {
                let (t, ty) = v.unwrap_or(("tt".into(), Ty::Unit));
                let t = crate::expr::lit_as(&t, &self.cur.ret.clone());
                Ok((self.fn_return_code(&t), ty))
            }
            Tail::Value => {
                let (t, ty) = v.unwrap_or(("tt".into(), Ty::Unit));
                Ok((Code::Ret(t), ty))
            }
            Tail::Loop(name, vars) => {
                let mut args = vec![];
                for x in vars {
                    match self.lookup(x) {
                        Some(Bnd::Val { term, .. }) => args.push(paren(term)),
                        _ => return Err(format!("loop variable {} is not a value", x)),
                    }
                }
                if let SelfKind::MutVal(_) = self.cur.self_kind {
                    args.push(paren(&self.self_var));
                }
                Ok((Code::Raw(format!("{} dbg fuel' {}", name, args.join(" "))), Ty::Unit))
            }
            Tail::Join(vars) => {
                let mut ts_ = vec![];
                for x in vars {
                    match self.lookup(x) {
                        Some(Bnd::Val { term, .. }) => ts_.push(term.clone()),
                        _ => return Err(format!("join variable {} is not a value", x)),
                    }
                }
                // a MutVal self is always threaded too
                if let SelfKind::MutVal(_) = self.cur.self_kind {
                    ts_.push(self.self_var.clone());
                }
                let t = match ts_.len() {
                    0 => "tt".to_string(),
                    1 => ts_[0].clone(),
                    _ => format!("({})", ts_.join(", ")),
                };
                Ok((Code::Ret(t), Ty::Unit))
            }
        }
    }

    /// after a joined sub-term: rebind the join variables to fresh names; returns the binder pattern
    fn rebind_join(&mut self, vars: &[String]) -> R<String> {
        let mut names = vec![];
        for x in vars {
            let ty = match self.lookup(x) {
                Some(Bnd::Val { ty, .. }) => ty.clone(),
                _ => return Err(format!("join variable {} is not a value", x)),
            };
            let n = self.gensym(&format!("v_{}_", sanitize(x)));
            self.assign(x, Bnd::Val { term: n.clone(), ty })?;
            names.push(n);
        }
        if let SelfKind::MutVal(_) = self.cur.self_kind {
            let n = self.gensym("v_self_");
            self.self_var = n.clone();
            names.push(n);
        }
        Ok(match names.len() {
            0 => "_".to_string(),
            1 => names[0].clone(),
            _ => format!("({})", names.join(", ")),
        })
    }

    /// join variables that are visible outside (declared in the current environment)
    fn outer_assigned(&self, cands: Vec<String>) -> Vec<String> {
        cands.into_iter().filter(|x| matches!(self.lookup(x), Some(Bnd::Val { .. }))).collect()
    }

    pub fn block(&mut self, b: &Block, tail: &Tail) -> R<(Code, Ty, bool)> {
        self.push();
        let r = self.stmts(&b.stmts, tail);
        self.pop();
        r
    }

    /// branch of a conditional: environment changes inside must not leak (except via Join)
    fn branch<F: FnOnce(&mut Cx) -> R<(Code, Ty, bool)>>(&mut self, f: F) -> R<(Code, Ty, bool)> {
        let saved_scopes = self.scopes.clone();
        let saved_self = self.self_var.clone();
        let r = f(self);
        self.scopes = saved_scopes;
        self.self_var = saved_self;
        r
    }

    pub fn stmts(&mut self, ss: &[Stmt], tail: &Tail) -> R<(Code, Ty, bool)> {
        if ss.is_empty() {
            let (c, ty) = self.tail_code(tail, None)?;
            return Ok((c, ty, false));
        }
        let (s, rest) = (&ss[0], &ss[1..]);
        match s {
            Stmt::Local(l) => {
                let mut pres = vec![];
                let init = l.init.as_ref().ok_or("let without initialiser")?;
                if init.diverge.is_some() {
                    return Err("let-else".into());
                }
                // `let v = &mut arena[..]` / `&mut self.nodes[..]` / `&mut self[..]`: a slot alias
                if let (Pat::Ident(pi), Expr::Reference(r)) = (&l.pat, &*init.expr) {
                    if r.mutability.is_some() {
                        if let Some(Pl::Slot(idx)) = self.place(&r.expr, &mut pres)? {
                            // fix the index in a variable so later uses are stable
                            let iv = self.gensym("i_");
                            pres.push(Pre::Let(iv.clone(), idx));
                            self.declare(&pi.ident.to_string(), Bnd::Slot { idx: iv });
                            let (k, ty, d) = self.stmts(rest, tail)?;
                            return Ok((wrap(pres, k), ty, d));
                        }
                    }
                }
                // `let next: fn(&Node<T>) -> Option<NodeId> = $next;` : a macro parameter used as a function
                if let (Pat::Type(pt), Expr::Path(ip)) = (&l.pat, &*init.expr) {
                    let mv = path_str(&ip.path);
                    if ts(&pt.ty).replace(' ', "").starts_with("fn(&Node<T>)->Option<NodeId>") && mv.starts_with("MV_") {
                        if let Pat::Ident(pi) = &*pt.pat {
                            let term = format!("f_{}", &mv[3..]);
                            if !self.fun_params.contains(&term) {
                                self.fun_params.push(term.clone());
                            }
                            self.declare(&pi.ident.to_string(), Bnd::Fun { term });
                            return self.stmts(rest, tail);
                        }
                    }
                }
                let (t, ty) = self.expr(&init.expr, &mut pres)?;
                let declared = match &l.pat {
                    Pat::Type(pt) => unify(&ty_of(&pt.ty), &ty),
                    _ => ty,
                };
                let pat = self.pat(&l.pat, &declared)?;
                pres.push(Pre::Let(pat, t));
                let (k, ty, d) = self.stmts(rest, tail)?;
                Ok((wrap(pres, k), ty, d))
            }
            Stmt::Macro(m) => {
                let mut pres = vec![];
                let div = self.stmt_macro(&m.mac, &mut pres)?;
                if div {
                    return Ok((wrap(pres, Code::Ret("tt".into())), Ty::Never, true));
                }
                let (k, ty, d) = self.stmts(rest, tail)?;
                Ok((wrap(pres, k), ty, d))
            }
            Stmt::Item(_) => Err("nested item".into()),
            Stmt::Expr(e, semi) => {
                let is_last = rest.is_empty();
                // value of the block
                if is_last && semi.is_none() && !matches!(e, Expr::Return(_) | Expr::While(_) | Expr::ForLoop(_) | Expr::Assign(_)) {
                    if matches!(e, Expr::If(_) | Expr::Match(_) | Expr::Block(_)) {
                        return self.ctrl(e, tail);
                    }
                    let mut pres = vec![];
                    let (t, ty) = self.expr(e, &mut pres)?;
                    if ty == Ty::Never {
                        return Ok((wrap(pres, Code::Ret("tt".into())), Ty::Never, true));
                    }
                    let (c, _) = self.tail_code(tail, Some((t, ty.clone())))?;
                    return Ok((wrap(pres, c), ty, false));
                }
                match e {
                    Expr::Return(r) => {
                        let mut pres = vec![];
                        let v = match &r.expr {
                            Some(x) => self.expr(x, &mut pres)?.0,
                            None => "tt".into(),
                        };
                        let v = crate::expr::lit_as(&v, &self.cur.ret.clone());
                        Ok((wrap(pres, self.fn_return_code(&v)), Ty::Never, true))
                    }
                    Expr::Assign(a) => {
                        let mut pres = vec![];
                        let pl = self.place(&a.left, &mut pres)?.ok_or(format!("assignment to non-place `{}`", ts(&a.left)))?;
                        let (v, vty) = self.expr(&a.right, &mut pres)?;
                        let v = crate::expr::lit_as(&v, &vty);
                        self.write_place(&pl, &v, &vty, &mut pres)?;
                        let (k, ty, d) = self.stmts(rest, tail)?;
                        Ok((wrap(pres, k), ty, d))
                    }
                    Expr::If(i) if last_mut_var(i).is_some() => {
                        // `if let Some(x) = self.indents.last_mut() { x.f = ..; }`: the last element is updated in place
                        let var = last_mut_var(i).unwrap();
                        if i.else_branch.is_some() {
                            return Err("last_mut with an else branch".into());
                        }
                        let el = self.gensym("e_");
                        let saved_self = self.self_var.clone();
                        let (c, _, _) = self.branch(|cx| {
                            cx.push();
                            cx.declare(&var, Bnd::Val { term: el.clone(), ty: Ty::IState });
                            let r = cx.stmts(&i.then_branch.stmts, &Tail::Join(vec![var.clone()]));
                            cx.pop();
                            if cx.self_var != saved_self {
                                return Err("last_mut block touches other state".to_string());
                            }
                            r
                        })?;
                        // Join over a MutVal self returns (element, self): keep the element
                        let body = c.as_pure().ok_or("last_mut block with effects")?;
                        let n = self.gensym("v_self_");
                        let mut pres = vec![Pre::Let(n.clone(), format!("set_g_ind (upd_last (fun {} => fst ({})) (g_ind {})) {}", el, body, self.self_var, self.self_var))];
                        self.self_var = n;
                        let (k, ty, d) = self.stmts(rest, tail)?;
                        let pres2 = std::mem::take(&mut pres);
                        Ok((wrap(pres2, k), ty, d))
                    }
                    Expr::If(_) | Expr::Match(_) | Expr::Block(_) => {
                        // statement position
                        if always_returns_expr(e) {
                            return self.ctrl(e, &Tail::FnRet);
                        }
                        if let Expr::If(i) = e {
                            // `if c { ...return } [else {B}] ; rest`  ==>  if c then .. else (B; rest)
                            let then_ret = always_returns_block(&i.then_branch);
                            if then_ret {
                                return self.if_with_rest(i, rest, tail);
                            }
                        }
                        let vars = match e {
                            Expr::If(i) => {
                                let mut blocks = vec![&i.then_branch];
                                let mut extra = vec![];
                                if let Some((_, eb)) = &i.else_branch {
                                    extra.push(&**eb);
                                }
                                let _ = &mut blocks;
                                self.outer_assigned(assigned_in(&blocks, &extra))
                            }
                            _ => self.outer_assigned(assigned_in(&[], &[e])),
                        };
                        let (c, _, _) = self.ctrl(e, &Tail::Join(vars.clone()))?;
                        let pat = self.rebind_join(&vars)?;
                        let (k, ty, d) = self.stmts(rest, tail)?;
                        let code = if pat == "_" { Code::seq(c, k) } else { Code::bind(&pat, c, k) };
                        Ok((code, ty, d))
                    }
                    Expr::While(w) => self.while_let(w, rest, tail),
                    Expr::ForLoop(f) if matches!(self.cur.self_kind, SelfKind::MutVal(Ty::Writer)) => {
                        // a loop that only appends to the sink: a pure fold over the list / the range
                        let mut pres = vec![];
                        let mut it = &*f.expr;
                        while let Expr::Reference(r) = it {
                            it = &*r.expr;
                        }
                        let (l, elem_ty) = match it {
                            Expr::Range(r) => {
                                let lo = r.start.as_ref().map(|x| ts(x)).unwrap_or_default();
                                if lo != "0" || !matches!(r.limits, RangeLimits::HalfOpen(_)) {
                                    return Err("for loop over a range not starting at 0".into());
                                }
                                let (h, _) = self.expr(r.end.as_ref().ok_or("open range")?, &mut pres)?;
                                (format!("seq 0 {}", paren(&h)), Ty::Nat)
                            }
                            other => {
                                let (l, lty) = self.expr(other, &mut pres)?;
                                if lty != Ty::ListIState {
                                    return Err(format!("for loop over {:?}", lty));
                                }
                                (l, Ty::IState)
                            }
                        };
                        let vars = self.outer_assigned(assigned_in(&[&f.body], &[]));
                        if !vars.is_empty() {
                            return Err("for loop with loop-carried locals".into());
                        }
                        let acc = self.gensym("s_");
                        let mut xname = String::new();
                        let (c, _, d) = self.branch(|cx| {
                            cx.self_var = acc.clone();
                            cx.push();
                            xname = cx.pat(&f.pat, &elem_ty)?;
                            let r = cx.stmts(&f.body.stmts, &Tail::Join(vec![]));
                            cx.pop();
                            r
                        })?;
                        if d {
                            return Err("return inside a for loop".into());
                        }
                        let body = c.as_pure().ok_or("for loop body with effects")?;
                        let n = self.gensym("v_self_");
                        pres.push(Pre::Let(n.clone(), format!("fold_left (fun {} {} => {}) ({}) {}", acc, xname, body, l, self.self_var)));
                        self.self_var = n;
                        let (k, ty, d) = self.stmts(rest, tail)?;
                        Ok((wrap(pres, k), ty, d))
                    }
                    Expr::ForLoop(f) => {
                        let mut pres = vec![];
                        let (l, lty) = self.expr(&f.expr, &mut pres)?;
                        if lty != Ty::ListNid {
                            return Err(format!("for loop over {:?}", lty));
                        }
                        let vars = self.outer_assigned(assigned_in(&[&f.body], &[]));
                        if !vars.is_empty() || matches!(self.cur.self_kind, SelfKind::MutVal(_)) {
                            return Err("for loop with loop-carried variables".into());
                        }
                        let body = self.branch(|cx| {
                            cx.push();
                            let x = cx.pat(&f.pat, &Ty::NodeId)?;
                            let (c, _, d) = cx.stmts(&f.body.stmts, &Tail::Value)?;
                            cx.pop();
                            if d {
                                return Err("return inside a for loop".into());
                            }
                            Ok((Code::Raw(format!("mfor {} (fun {} =>\n{})", paren(&l), x, c.print(6))), Ty::Unit, false))
                        })?;
                        pres.push(Pre::Seq(body.0));
                        let (k, ty, d) = self.stmts(rest, tail)?;
                        Ok((wrap(pres, k), ty, d))
                    }
                    _ => {
                        let mut pres = vec![];
                        let (_t, ty) = self.expr(e, &mut pres)?;
                        if ty == Ty::Never {
                            return Ok((wrap(pres, Code::Ret("tt".into())), Ty::Never, true));
                        }
                        let (k, ty, d) = self.stmts(rest, tail)?;
                        Ok((wrap(pres, k), ty, d))
                    }
                }
            }
        }
    }

    fn cond(&mut self, c: &Expr, pres: &mut Vec<Pre>) -> R<CondK> {
        match c {
            Expr::Let(l) => {
                // `if let (Some(a), Some(b)) = (x, y)`, `if let Some(v) = opt.map(|id| &[mut] arena[id])`
                if let Expr::MethodCall(m) = &*l.expr {
                    if m.method == "map" && m.args.len() == 1 {
                        if let Expr::Closure(cl) = &m.args[0] {
                            if let Expr::Reference(r) = &*cl.body {
                                if let (Pat::TupleStruct(tsp), Expr::Index(_)) = (&*l.pat, &*r.expr) {
                                    if path_str(&tsp.path) == "Some" {
                                        if let Pat::Ident(v) = &tsp.elems[0] {
                                            let (o, oty) = self.expr(&m.receiver, pres)?;
                                            let inner = match oty {
                                                Ty::Opt(i) => *i,
                                                _ => return Err("map on a non-option".into()),
                                            };
                                            return Ok(CondK::SomeSlot { scrut: o, inner, closure_param: cl.inputs[0].clone(), slot_expr: (*r.expr).clone(), var: v.ident.to_string(), mutable: r.mutability.is_some() });
                                        }
                                    }
                                }
                            }
                        }
                    }
                }
                let (t, ty) = self.expr(&l.expr, pres)?;
                Ok(CondK::Let { scrut: t, ty, pat: (*l.pat).clone() })
            }
            _ => {
                let (t, ty) = self.expr(c, pres)?;
                if ty != Ty::Bool {
                    return Err(format!("condition of type {:?}", ty));
                }
                Ok(CondK::Bool(t))
            }
        }
    }

    /// build the conditional from compiled branches
    fn mk_if(&mut self, k: CondK, then_f: &mut dyn FnMut(&mut Cx) -> R<(Code, Ty, bool)>, else_f: &mut dyn FnMut(&mut Cx) -> R<(Code, Ty, bool)>) -> R<(Code, Ty, bool)> {
        match k {
            CondK::Bool(t) => {
                let (a, aty, ad) = self.branch(|cx| then_f(cx))?;
                let (b, bty, bd) = self.branch(|cx| else_f(cx))?;
                if t == "dbg" {
                    if let Code::Ret(x) = &b {
                        if x == "tt" {
                            return Ok((Code::Raw(format!("when_dbg dbg {}", a.print_inline(2))), aty, false));
                        }
                    }
                }
                Ok((Code::If(t, Box::new(a), Box::new(b)), unify(&aty, &bty), ad && bd))
            }
            CondK::Let { scrut, ty, pat } => {
                let mut p = String::new();
                let (a, aty, ad) = self.branch(|cx| {
                    cx.push();
                    p = cx.pat(&pat, &ty)?;
                    let r = then_f(cx);
                    cx.pop();
                    r
                })?;
                let (b, bty, bd) = self.branch(|cx| else_f(cx))?;
                let other = if p.starts_with('(') { "_".to_string() } else if p.starts_with("Some") { "None".to_string() } else { "_".to_string() };
                Ok((Code::Match(scrut, vec![(p, a), (other, b)]), unify(&aty, &bty), ad && bd))
            }
            CondK::SomeSlot { scrut, inner, closure_param, slot_expr, var, mutable } => {
                let mut p = String::new();
                let (a, aty, ad) = self.branch(|cx| {
                    cx.push();
                    p = cx.pat(&closure_param, &inner)?;
                    let mut pres = vec![];
                    let pl = cx.place(&slot_expr, &mut pres)?;
                    let idx = match pl {
                        Some(Pl::Slot(i)) => i,
                        _ => return Err("closure body is not an arena slot".into()),
                    };
                    if mutable {
                        cx.declare(&var, Bnd::Slot { idx });
                    } else {
                        let (n, _) = cx.read_place(&Pl::Slot(idx), &mut pres)?;
                        cx.declare(&var, Bnd::Val { term: n, ty: Ty::Node });
                    }
                    let r = then_f(cx);
                    cx.pop();
                    let (c, ty, d) = r?;
                    Ok((wrap(pres, c), ty, d))
                })?;
                let (b, bty, bd) = self.branch(|cx| else_f(cx))?;
                Ok((Code::Match(scrut, vec![(format!("Some {}", p), a), ("None".into(), b)]), unify(&aty, &bty), ad && bd))
            }
        }
    }

    /// if / match / block in any position
    pub fn ctrl(&mut self, e: &Expr, tail: &Tail) -> R<(Code, Ty, bool)> {
        match e {
            Expr::Block(b) => self.block(&b.block, tail),
            Expr::If(i) => {
                let mut pres = vec![];
                let k = self.cond(&i.cond, &mut pres)?;
                let tail2 = tail.clone();
                let tail3 = tail.clone();
                let (c, ty, d) = self.mk_if(
                    k,
                    &mut |cx| cx.block(&i.then_branch, &tail2),
                    &mut |cx| match &i.else_branch {
                        Some((_, eb)) => match &**eb {
                            Expr::Block(b) => cx.block(&b.block, &tail3),
                            other => cx.ctrl(other, &tail3),
                        },
                        None => cx.stmts(&[], &tail3),
                    },
                )?;
                Ok((wrap(pres, c), ty, d))
            }
            Expr::Match(m) => {
                let mut pres = vec![];
                let (s, sty) = self.expr(&m.expr, &mut pres)?;
                // flatten or-patterns
                let mut flat: Vec<(&Pat, Option<&Expr>, &Expr)> = vec![];
                for arm in &m.arms {
                    let pats: Vec<&Pat> = match &arm.pat {
                        Pat::Or(o) => o.cases.iter().collect(),
                        p => vec![p],
                    };
                    for p in pats {
                        flat.push((p, arm.guard.as_ref().map(|(_, g)| &**g), &*arm.body));
                    }
                }
                let (c, ty, d) = self.match_seq(&s, &sty, &flat, tail)?;
                Ok((wrap(pres, c), ty, d))
            }
            _ => Err(format!("ctrl on `{}`", ts(e))),
        }
    }

    /// arms in order; an arm with a guard `p if g => b` becomes `p => if g then b else <rest>` with the remaining
    /// arms compiled again for the fall-through
    fn match_seq(&mut self, s: &str, sty: &Ty, arms: &[(&Pat, Option<&Expr>, &Expr)], tail: &Tail) -> R<(Code, Ty, bool)> {
        if arms.is_empty() {
            return Ok((Code::Panic("P_UNREACHABLE"), Ty::Never, true));
        }
        let first_guard = arms.iter().position(|a| a.1.is_some());
        let body_code = |cx: &mut Cx, body: &Expr, tail: &Tail| -> R<(Code, Ty, bool)> {
            match body {
                Expr::Block(b) => cx.block(&b.block, tail),
                other => cx.stmts(&[Stmt::Expr(other.clone(), None)], tail),
            }
        };
        match first_guard {
            None => {
                let mut out = vec![];
                let mut ty = Ty::Never;
                let mut alld = true;
                for (p, _, body) in arms {
                    let mut ps = String::new();
                    let (c, aty, d) = self.branch(|cx| {
                        cx.push();
                        ps = cx.pat(p, sty)?;
                        let r = body_code(cx, body, tail);
                        cx.pop();
                        r
                    })?;
                    ty = unify(&ty, &aty);
                    alld = alld && d;
                    out.push((ps, c));
                }
                Ok((Code::Match(s.to_string(), out), ty, alld))
            }
            Some(0) => {
                let (p, g, body) = arms[0];
                let (rest, rty, rd) = self.match_seq(s, sty, &arms[1..], tail)?;
                let mut ps = String::new();
                let rest2 = rest.clone();
                let (c, aty, d) = self.branch(|cx| {
                    cx.push();
                    ps = cx.pat(p, sty)?;
                    let mut gp = vec![];
                    let (gt, gty) = cx.expr(g.unwrap(), &mut gp)?;
                    if gty != Ty::Bool || !gp.is_empty() {
                        cx.pop();
                        return Err("match guard with effects".to_string());
                    }
                    let r = body_code(cx, body, tail);
                    cx.pop();
                    let (bc, bty, bd) = r?;
                    Ok((Code::If(gt, Box::new(bc), Box::new(rest2)), bty, bd))
                })?;
                Ok((Code::Match(s.to_string(), vec![(ps, c), ("_".into(), rest)]), unify(&aty, &rty), d && rd))
            }
            Some(k) => {
                // unguarded arms before the first guard: not needed by the sources
                let _ = k;
                Err("match with a guard after unguarded arms".into())
            }
        }
    }

    /// `if c { ..return.. } [else {B}]; rest`
    fn if_with_rest(&mut self, i: &ExprIf, rest: &[Stmt], tail: &Tail) -> R<(Code, Ty, bool)> {
        let mut pres = vec![];
        let k = self.cond(&i.cond, &mut pres)?;
        let tail2 = tail.clone();
        let (c, ty, d) = self.mk_if(
            k,
            &mut |cx| cx.block(&i.then_branch, &Tail::FnRet),
            &mut |cx| {
                let mut all: Vec<Stmt> = vec![];
                if let Some((_, eb)) = &i.else_branch {
                    all.push(Stmt::Expr((**eb).clone(), Some(Default::default())));
                }
                all.extend(rest.iter().cloned());
                cx.stmts(&all, &tail2)
            },
        )?;
        Ok((wrap(pres, c), ty, d))
    }

    /// `while let PAT = PLACE-EXPR { body }; rest` lifted to a fuelled Fixpoint; the rest of the
    /// function is the loop's exit branch
    fn while_let(&mut self, w: &ExprWhile, rest: &[Stmt], tail: &Tail) -> R<(Code, Ty, bool)> {
        let let_cond = match &*w.cond {
            Expr::Let(l) => Some(l),
            _ => None,
        };
        let carried = self.outer_assigned(assigned_in(&[&w.body], &[]));
        let mutself = matches!(self.cur.self_kind, SelfKind::MutVal(_));
        if mutself && !matches!(self.cur.self_kind, SelfKind::MutVal(Ty::Writer)) {
            return Err("while loop in a &mut self value method".into());
        }
        // parameters: every visible value variable (carried ones are updated on the recursive call)
        let vis: Vec<(String, String, Ty)> = self.visible().into_iter().filter_map(|(k, b)| match b {
            Bnd::Val { term, ty } => Some((k, term, ty)),
            _ => None,
        }).collect();
        let lname = format!("{}_loop{}", self.cur.coq, self.lifted.len() + 1);
        let saved_scopes = self.scopes.clone();
        let saved_self = self.self_var.clone();
        // inside the fixpoint every visible variable is a parameter with a stable name
        let mut params = vec![];
        for (k, _, ty) in &vis {
            let pn = format!("p_{}", sanitize(k));
            self.assign(k, Bnd::Val { term: pn.clone(), ty: ty.clone() })?;
            params.push((pn, ty.clone()));
        }
        if mutself {
            self.self_var = "p_self".into();
            params.push(("p_self".into(), Ty::Writer));
        }
        let mut pres = vec![];
        let (s, sty) = match let_cond {
            Some(l) => self.expr(&l.expr, &mut pres)?,
            None => self.expr(&w.cond, &mut pres)?,
        };
        if let_cond.is_none() && (sty != Ty::Bool || !pres.is_empty()) {
            return Err("while condition is not a pure boolean".into());
        }
        let mut pat = String::new();
        let _ = &carried;
        let loop_tail = Tail::Loop(lname.clone(), vis.iter().map(|(k, _, _)| k.clone()).collect());
        let body = self.branch(|cx| {
            cx.push();
            if let Some(l) = let_cond {
                pat = cx.pat(&l.pat, &sty)?;
            }
            let r = cx.stmts(&w.body.stmts, &loop_tail);
            cx.pop();
            r
        })?;
        let exit = self.branch(|cx| cx.stmts(rest, tail))?;
        let other = if pat.starts_with("Some") { "None" } else { "_" };
        let fueled = Code::Match("fuel".into(), vec![("O".into(), Code::Raw("diverge".into())), ("S fuel'".into(), body.0.clone())]);
        // the fuel is consumed before any effect of an iteration: when evaluating the loop condition reads the
        // arena the fuel test comes first, otherwise it comes after the (pure) condition said "continue"
        let fix_body = if let_cond.is_none() {
            Code::If(s, Box::new(fueled), Box::new(exit.0))
        } else if pres.is_empty() {
            Code::Match(s, vec![(pat, fueled), (other.into(), exit.0)])
        } else {
            Code::Match(
                "fuel".into(),
                vec![("O".into(), Code::Raw("diverge".into())), ("S fuel'".into(), wrap(pres, Code::Match(s, vec![(pat, body.0), (other.into(), exit.0)])))],
            )
        };
        let plist = params.iter().map(|(n, t)| format!("({} : {})", n, t.coq())).collect::<Vec<_>>().join(" ");
        let rty = match tail {
            Tail::Value => exit.1.clone(),
            _ => self.cur.coq_ret(),
        };
        self.lifted.push(format!("Fixpoint {} (dbg : bool) (fuel : nat) {} {{struct fuel}} : M {} :=\n{}.\n", lname, plist, rty.coq(), fix_body.print(2)));
        self.scopes = saved_scopes;
        self.self_var = saved_self;
        let mut args: Vec<String> = vis.iter().map(|(_, t, _)| paren(t)).collect();
        if mutself {
            args.push(paren(&self.self_var));
        }
        // fuel: a loop that consumes a string is bounded by its length, a walk over links by the number of slots
        let str_var = vis.iter().find(|(k, _, ty)| *ty == Ty::Str && carried.contains(k));
        if let Some((_, t, _)) = str_var {
            let call = Code::Raw(format!("{} dbg (S (List.length {})) {}", lname, paren(t), args.join(" ")));
            return Ok((call, exit.1, exit.2));
        }
        let a = self.gensym("a_");
        let call = Code::Raw(format!("{} dbg (chain_fuel {}) {}", lname, a, args.join(" ")));
        Ok((Code::bind(&a, Code::Raw("get_arena".into()), call), exit.1, exit.2))
    }

    /// statement macros; returns true if the macro never returns
    fn stmt_macro(&mut self, mac: &Macro, pres: &mut Vec<Pre>) -> R<bool> {
        let name = path_str(&mac.path);
        let parser = Punctuated::<Expr, Token![,]>::parse_terminated;
        match name.as_str() {
            "debug_assert" | "assert" => {
                let args = mac.parse_body_with(parser).map_err(|e| e.to_string())?;
                let mut ip = vec![];
                let (c, cty) = self.expr(&args[0], &mut ip)?;
                if cty != Ty::Bool {
                    return Err("assert on a non-bool".into());
                }
                if name == "debug_assert" {
                    pres.push(Pre::Seq(Code::Raw(format!("when_dbg dbg {}", wrap(ip, Code::Raw(format!("dassert true {}", paren(&c)))).print_inline(2)))));
                } else {
                    let code = if self.cur_key == "NodeId::append_value" { "P_PRECOND" } else { "P_ASSERT" };
                    pres.extend(ip);
                    pres.push(Pre::Seq(Code::If(c, Box::new(Code::Ret("tt".into())), Box::new(Code::Panic(code)))));
                }
                Ok(false)
            }
            "debug_assert_ne" => {
                let args = mac.parse_body_with(parser).map_err(|e| e.to_string())?;
                let mut ip = vec![];
                let (a, aty) = self.expr(&args[0], &mut ip)?;
                let (b, bty) = self.expr(&args[1], &mut ip)?;
                let t = eqb(&unify(&aty, &bty), &a, &b)?;
                pres.push(Pre::Seq(Code::Raw(format!("when_dbg dbg {}", wrap(ip, Code::Raw(format!("dassert true (negb ({}))", t))).print_inline(2)))));
                Ok(false)
            }
            "debug_assert_eq" | "assert_eq" => {
                let args = mac.parse_body_with(parser).map_err(|e| e.to_string())?;
                let mut ip = vec![];
                let (a, aty) = self.expr(&args[0], &mut ip)?;
                let (b, bty) = self.expr(&args[1], &mut ip)?;
                let t = eqb(&unify(&aty, &bty), &a, &b)?;
                if name == "debug_assert_eq" {
                    pres.push(Pre::Seq(Code::Raw(format!("when_dbg dbg {}", wrap(ip, Code::Raw(format!("dassert true {}", paren(&t)))).print_inline(2)))));
                } else {
                    let code = if self.cur_key == "assert_triangle_nodes" { "P_TRIANGLE" } else { "P_ASSERT" };
                    pres.extend(ip);
                    pres.push(Pre::Seq(Code::If(t, Box::new(Code::Ret("tt".into())), Box::new(Code::Panic(code)))));
                }
                Ok(false)
            }
            "debug_assert_triangle_nodes" => {
                let args = mac.parse_body_with(parser).map_err(|e| e.to_string())?;
                if args.len() != 4 {
                    return Err("debug_assert_triangle_nodes! arity".into());
                }
                let mut ip = vec![];
                let mut ts_ = vec![];
                for a in args.iter().skip(1) {
                    ts_.push(self.expr(a, &mut ip)?.0);
                }
                let call = Code::Raw(format!("g_assert_triangle_nodes dbg {}", ts_.iter().map(|t| paren(t)).collect::<Vec<_>>().join(" ")));
                pres.push(Pre::Seq(Code::Raw(format!("when_dbg dbg {}", wrap(ip, call).print_inline(2)))));
                Ok(false)
            }
            "unreachable" => {
                pres.push(Pre::Seq(Code::Panic("P_UNREACHABLE")));
                Ok(true)
            }
            _ => {
                let _: Option<MatchesArgs> = None;
                Err(format!("unsupported macro {}!", name))
            }
        }
    }
}

pub enum CondK {
    Bool(String),
    Let { scrut: String, ty: Ty, pat: Pat },
    SomeSlot { scrut: String, inner: Ty, closure_param: Pat, slot_expr: Expr, var: String, mutable: bool },
}
