//! Part 3: calls, method calls, macros in expression position.
use crate::code::*;
use crate::cx::*;
use crate::tr::*;
use syn::punctuated::Punctuated;
use syn::*;

fn is_arena_arg(e: &Expr) -> bool {
    let s = ts(e).replace(' ', "");
    s == "arena" || s == "self.arena" || s == "self.0.arena" || s == "&mutarena" || s == "&arena"
}

impl Cx {
    /// emit a call of a translated crate function; returns the value term
    pub fn emit_call(&mut self, key: &str, recv: Option<String>, args: Vec<String>, pres: &mut Vec<Pre>) -> R<(String, Ty)> {
        let sig = self.sigs.get(key).cloned().ok_or(format!("call of untranslated function {}", key))?;
        if args.len() != sig.params.len() {
            return Err(format!("arity mismatch calling {}", key));
        }
        let mut t = if sig.pure_fn { sig.coq.clone() } else { format!("{} dbg", sig.coq) };
        if let Some(r) = recv {
            t += &format!(" {}", paren(&r));
        }
        for (a, (_, pty)) in args.iter().zip(sig.params.iter()) {
            t += &format!(" {}", paren(&crate::expr::lit_as(a, pty)));
        }
        let rty = sig.coq_ret();
        if sig.pure_fn {
            return Ok((t, rty));
        }
        if rty == Ty::Unit {
            pres.push(Pre::Seq(Code::Raw(t)));
            Ok(("tt".into(), Ty::Unit))
        } else {
            let v = self.fresh_bind("c_", Code::Raw(t), pres);
            Ok((v, rty))
        }
    }

    fn args_no_arena(&mut self, args: &Punctuated<Expr, token::Comma>, pres: &mut Vec<Pre>) -> R<Vec<(String, Ty)>> {
        let mut v = vec![];
        for a in args {
            if is_arena_arg(a) {
                continue;
            }
            v.push(self.expr(a, pres)?);
        }
        Ok(v)
    }

    pub fn call(&mut self, c: &ExprCall, pres: &mut Vec<Pre>) -> R<(String, Ty)> {
        let f = match &*c.func {
            Expr::Path(p) => path_str(&p.path),
            _ => return Err(format!("unsupported callee `{}`", ts(&c.func))),
        };
        let f = f.trim_start_matches("crate::relations::").to_string();
        if let Some(Bnd::Fun { term }) = self.lookup(&f).cloned() {
            if c.args.len() != 1 {
                return Err("function value applied to several arguments".into());
            }
            let (a, aty) = self.expr(&c.args[0], pres)?;
            if aty != Ty::Node {
                return Err("function value applied to a non-node".into());
            }
            return Ok((format!("{} {}", term, paren(&a)), Ty::opt(Ty::NodeId)));
        }
        match f.as_str() {
            "Some" => {
                let (t, ty) = self.expr(&c.args[0], pres)?;
                return Ok((format!("Some {}", paren(&t)), Ty::opt(ty)));
            }
            "Ok" => {
                if ts(&c.args[0]).replace(' ', "") != "()" {
                    return Err("Ok(..) with a payload".into());
                }
                return match self.cur.ret {
                    Ty::URes => Ok(("true".into(), Ty::URes)),
                    Ty::Unit => Ok(("tt".into(), Ty::Unit)),
                    Ty::CRes => Ok(("COk".into(), Ty::CRes)),
                    Ty::NRes => Ok(("NOk".into(), Ty::NRes)),
                    _ => Err("Ok(()) in a function that does not return a Result".into()),
                };
            }
            "Err" if self.cur.ret == Ty::URes && ts(&c.args[0]).replace(' ', "") == "()" => return Ok(("false".into(), Ty::URes)),
            "Err" => {
                let p = match &c.args[0] {
                    Expr::Path(p) => path_str(&p.path),
                    _ => return Err("Err(..) of a non-constant".into()),
                };
                if let Some(v) = p.strip_prefix("ConsistencyError::") {
                    return Ok((format!("CErr {}", v), Ty::CRes));
                }
                if let Some(v) = p.strip_prefix("NodeError::") {
                    return Ok((format!("NErr {}", v), Ty::NRes));
                }
                return Err(format!("unknown error constant {}", p));
            }
            "NodeEdge::Start" | "NodeEdge::End" | "NodeData::NextFree" | "NodeData::Data" => {
                let (t, _) = self.expr(&c.args[0], pres)?;
                let (ctor, ty) = match f.as_str() {
                    "NodeEdge::Start" => ("Start", Ty::Edge),
                    "NodeEdge::End" => ("End_", Ty::Edge),
                    "NodeData::NextFree" => ("NextFree", Ty::Data),
                    _ => ("Data", Ty::Data),
                };
                return Ok((format!("{} {}", ctor, paren(&t)), ty));
            }
            "NonZeroUsize::new" => {
                let (t, _) = self.expr(&c.args[0], pres)?;
                return Ok((format!("match {} with O => None | S _ => Some {} end", t, paren(&t)), Ty::opt(Ty::NzNat)));
            }
            "NodeStamp::default" => return Ok(("0%Z".into(), Ty::Stamp)),
            "mem::size_of" => {
                self.layout_params = true;
                return Ok(("v_size".into(), Ty::Addr));
            }
            "DoubleEndedIter::new" | "Iter::new" => {
                // fn new(arena, x: impl Into<Option<NodeId>>, ..): each argument is a NodeId or an Option<NodeId>
                let args = self.args_no_arena(&c.args, pres)?;
                let mut ts_ = vec![];
                for (t, ty) in args {
                    match ty {
                        Ty::NodeId => ts_.push(format!("Some {}", paren(&t))),
                        Ty::Opt(_) => ts_.push(t),
                        other => return Err(format!("{} argument of type {:?}", f, other)),
                    }
                }
                return match (f.as_str(), ts_.len()) {
                    ("Iter::new", 1) => Ok((ts_[0].clone(), Ty::IterSt)),
                    ("DoubleEndedIter::new", 2) => Ok((format!("({}, {})", ts_[0], ts_[1]), Ty::DeSt)),
                    _ => Err(format!("{} arity", f)),
                };
            }
            _ => {}
        }
        // Type::assoc_fn(..) or free function of the crate
        let key = if f.starts_with("Self::") { f.replace("Self", self.cur_key.split("::").next().unwrap()) } else { f.clone() };
        if self.sigs.contains_key(&key) {
            let args: Vec<String> = self.args_no_arena(&c.args, pres)?.into_iter().map(|x| x.0).collect();
            return self.emit_call(&key, None, args, pres);
        }
        Err(format!("call of unknown function `{}`", f))
    }

    /// a one-parameter closure applied to a value: returns effects and result
    fn closure1(&mut self, c: &Expr, arg: &str, aty: &Ty) -> R<(Vec<Pre>, String, Ty)> {
        match c {
            Expr::Closure(cl) => {
                if cl.inputs.len() != 1 {
                    return Err("closure arity".into());
                }
                self.push();
                let pat = self.pat(&cl.inputs[0], aty)?;
                let mut pres = vec![Pre::Let(pat, arg.to_string())];
                let r = self.expr(&cl.body, &mut pres);
                self.pop();
                let (t, ty) = r?;
                Ok((pres, t, ty))
            }
            Expr::Path(p) => {
                let s = path_str(&p.path);
                match s.as_str() {
                    "NodeEdge::End" => Ok((vec![], format!("End_ {}", paren(arg)), Ty::Edge)),
                    "NodeEdge::Start" => Ok((vec![], format!("Start {}", paren(arg)), Ty::Edge)),
                    _ => Err(format!("unsupported function value {}", s)),
                }
            }
            _ => Err(format!("expected a closure, found `{}`", ts(c))),
        }
    }

    /// pure prefix (only lets) can be folded into a term
    fn fold_pure(pres: &[Pre], t: &str) -> Option<String> {
        let mut s = t.to_string();
        for p in pres.iter().rev() {
            match p {
                Pre::Let(pat, v) => {
                    let pp = if pat.starts_with('(') { format!("'{}", pat) } else { pat.clone() };
                    s = format!("let {} := {} in {}", pp, v, s)
                }
                _ => return None,
            }
        }
        Some(s)
    }

    fn crate_type_of(&self, ty: &Ty, method: &str) -> Option<String> {
        let cands: Vec<&str> = match ty {
            Ty::NodeId => vec!["NodeId"],
            Ty::Node => vec!["Node"],
            Ty::Stamp => vec!["NodeStamp"],
            Ty::Range => vec!["SiblingsRange", "DetachedSiblingsRange"],
            Ty::Edge => vec!["NodeEdge"],
            Ty::IState => vec!["IndentedBlockState"],
            Ty::Writer => vec!["IndentWriter"],
            Ty::TravSt => vec![if self.cur_key.starts_with("ReverseTraverse") { "ReverseTraverse" } else { "Traverse" }],
            _ => vec![],
        };
        for c in cands {
            let k = format!("{}::{}", c, method);
            if self.sigs.contains_key(&k) {
                return Some(k);
            }
        }
        None
    }

    pub fn method(&mut self, m: &ExprMethodCall, pres: &mut Vec<Pre>) -> R<(String, Ty)> {
        let name = m.method.to_string();
        let recv_s = ts(&m.receiver).replace(' ', "");
        // ---- the arena itself as receiver
        let recv_is_arena = recv_s == "arena" || (recv_s == "self" && self.cur.self_kind == SelfKind::Arena) || recv_s == "self.arena";
        if recv_is_arena {
            let key = format!("Arena::{}", name);
            let args: Vec<String> = self.args_no_arena(&m.args, pres)?.into_iter().map(|x| x.0).collect();
            return self.emit_call(&key, None, args, pres);
        }
        if recv_s == "self.nodes" && self.cur.self_kind == SelfKind::Arena {
            let a = self.fresh_bind("a_", Code::Raw("get_arena".into()), pres);
            match name.as_str() {
                "len" => return Ok((format!("List.length (nodes {})", a), Ty::Nat)),
                // the buffer of the Vec: `len` slots of `v_size` bytes from address `v_base` (memory layout parameters)
                "as_ptr_range" => {
                    self.layout_params = true;
                    return Ok((format!("(v_base, (v_base + Z.of_nat (List.length (nodes {})) * v_size)%Z)", a), Ty::AddrRange));
                }
                "push" => {
                    let (v, _) = self.expr(&m.args[0], pres)?;
                    pres.push(Pre::Seq(Code::Raw(format!("put_arena (set_nodes ((nodes {} ++ [{}])%list) {})", a, v, a))));
                    return Ok(("tt".into(), Ty::Unit));
                }
                "clear" => {
                    pres.push(Pre::Seq(Code::Raw(format!("put_arena (set_nodes [] {})", a))));
                    return Ok(("tt".into(), Ty::Unit));
                }
                "get" => {
                    let (v, _) = self.expr(&m.args[0], pres)?;
                    return Ok((format!("nth_error (nodes {}) {}", a, paren(&v)), Ty::opt(Ty::Node)));
                }
                _ => return Err(format!("unsupported Vec method self.nodes.{}", name)),
            }
        }
        // ---- the sink of the pretty printer: bytes are appended to the output (it never fails)
        if recv_s == "self.fmt" && matches!(self.cur.self_kind, SelfKind::MutVal(Ty::Writer)) {
            let (v, vty) = self.expr(&m.args[0], pres)?;
            let bytes = match (name.as_str(), &vty) {
                ("write_str", Ty::Str) => v,
                ("write_char", Ty::Char) => format!("[{}]", v),
                _ => return Err(format!("unsupported sink call `{}`", ts(m))),
            };
            let n = self.gensym("v_self_");
            pres.push(Pre::Let(n.clone(), format!("set_g_out (g_out {} ++ {})%list {}", self.self_var, bytes, self.self_var)));
            self.self_var = n;
            return Ok(("tt".into(), Ty::Unit));
        }
        // ---- self.indents.iter().rev().take_while(|i| p i).count()
        if name == "count" {
            if let Expr::MethodCall(tw) = &*m.receiver {
                if tw.method == "take_while" {
                    if let Expr::MethodCall(rv) = &*tw.receiver {
                        if rv.method == "rev" {
                            if let Expr::MethodCall(it) = &*rv.receiver {
                                if it.method == "iter" {
                                    let (l, lty) = self.expr(&it.receiver, pres)?;
                                    if lty != Ty::ListIState {
                                        return Err("take_while idiom over a non-list".into());
                                    }
                                    let x = self.gensym("x_");
                                    let (cp, ct, cty) = self.closure1(&tw.args[0], &x, &Ty::IState)?;
                                    let body = Self::fold_pure(&cp, &ct).ok_or("take_while with an effectful closure")?;
                                    if cty != Ty::Bool {
                                        return Err("take_while closure is not a predicate".into());
                                    }
                                    return Ok((format!("count_trailing (fun {} => {}) {}", x, body, paren(&l)), Ty::Nat));
                                }
                            }
                        }
                    }
                }
            }
        }
        // ---- Vec methods on self.indents (a place)
        if recv_s == "self.indents" && matches!(self.cur.self_kind, SelfKind::MutVal(Ty::Writer)) && (name == "push" || name == "pop") {
            let cur = format!("g_ind {}", self.self_var);
            if name == "push" {
                let (v, _) = self.expr(&m.args[0], pres)?;
                let n = self.gensym("v_self_");
                pres.push(Pre::Let(n.clone(), format!("set_g_ind ({} ++ [{}])%list {}", cur, v, self.self_var)));
                self.self_var = n;
                return Ok(("tt".into(), Ty::Unit));
            } else {
                let old = self.gensym("old_");
                pres.push(Pre::Let(old.clone(), format!("last_opt ({})", cur)));
                let n = self.gensym("v_self_");
                pres.push(Pre::Let(n.clone(), format!("set_g_ind (removelast ({})) {}", cur, self.self_var)));
                self.self_var = n;
                return Ok((old, Ty::opt(Ty::IState)));
            }
        }
        // ---- iterator idioms on NodeId
        if name == "any" || name == "collect" {
            return self.iter_idiom(m, pres);
        }
        // ---- `.take()` needs a place
        if name == "take" && m.args.is_empty() {
            let pl = self.place(&m.receiver, pres)?.ok_or(format!("take() on a non-place `{}`", recv_s))?;
            let (v, ty) = self.read_place(&pl, pres)?;
            // snapshot before overwriting
            let old = self.gensym("old_");
            pres.push(Pre::Let(old.clone(), v));
            self.write_place(&pl, "None", &ty, pres)?;
            return Ok((old, ty));
        }
        // ---- crate methods with a &mut self of a value type: read place, call, write back
        let rplace = self.place(&m.receiver, pres)?;
        let (rt, rty) = match &rplace {
            Some(pl) => self.read_place(pl, pres)?,
            None => self.expr(&m.receiver, pres)?,
        };
        if let Some(key) = self.crate_type_of(&rty, &name) {
            let sig = self.sigs[&key].clone();
            let args: Vec<String> = self.args_no_arena(&m.args, pres)?.into_iter().map(|x| x.0).collect();
            let (v, vty) = self.emit_call(&key, Some(rt), args, pres)?;
            if let SelfKind::MutVal(st) = &sig.self_kind {
                let pl = rplace.ok_or(format!("&mut self method {} on a non-place", key))?;
                if sig.ret == Ty::Unit {
                    self.write_place(&pl, &v, st, pres)?;
                    return Ok(("tt".into(), Ty::Unit));
                } else {
                    self.write_place(&pl, &format!("fst {}", v), st, pres)?;
                    return Ok((format!("snd {}", v), sig.ret.clone()));
                }
            }
            return Ok((v, vty));
        }
        // ---- builtins by receiver type
        match (&rty, name.as_str()) {
            (Ty::Opt(_), "is_some") => Ok((format!("is_some {}", paren(&rt)), Ty::Bool)),
            (Ty::Opt(_), "is_none") => Ok((format!("negb (is_some {})", paren(&rt)), Ty::Bool)),
            (Ty::Opt(_), "or") => {
                let (a, aty) = self.expr(&m.args[0], pres)?;
                Ok((format!("or_else {} {}", paren(&rt), paren(&a)), unify(&rty, &aty)))
            }
            (Ty::Opt(inner), "map") | (Ty::Opt(inner), "and_then") | (Ty::Opt(inner), "is_some_and") | (Ty::Opt(inner), "filter") => {
                let x = self.gensym("x_");
                let (cp, ct, cty) = self.closure1(&m.args[0], &x, inner)?;
                let (some_val, none_val, outty) = match name.as_str() {
                    "map" => (format!("Some {}", paren(&ct)), "None".to_string(), Ty::opt(cty)),
                    "and_then" => (ct.clone(), "None".to_string(), cty),
                    "is_some_and" => (ct.clone(), "false".to_string(), Ty::Bool),
                    _ => (format!("if {} then Some {} else None", ct, x), "None".to_string(), rty.clone()),
                };
                if let Some(body) = Self::fold_pure(&cp, &some_val) {
                    // pure closure
                    if name == "map" && cp.len() == 1 {
                        if let Some(inner_t) = Self::fold_pure(&cp, &ct) {
                            return Ok((format!("option_map (fun {} => {}) {}", x, inner_t, paren(&rt)), outty));
                        }
                    }
                    return Ok((format!("match {} with Some {} => {} | None => {} end", rt, x, body, none_val), outty));
                }
                let code = Code::Match(rt, vec![(format!("Some {}", x), wrap(cp, Code::Ret(some_val))), ("None".into(), Code::Ret(none_val))]);
                let v = self.fresh_bind("o_", code, pres);
                Ok((v, outty))
            }
            (Ty::Opt(inner), "map_or") => {
                let (d, dty) = self.expr(&m.args[0], pres)?;
                let x = self.gensym("x_");
                let (cp, ct, cty) = self.closure1(&m.args[1], &x, inner)?;
                let body = Self::fold_pure(&cp, &ct).ok_or("map_or with an effectful closure")?;
                Ok((format!("match {} with Some {} => {} | None => {} end", rt, x, body, d), unify(&cty, &dty)))
            }
            (Ty::Opt(inner), "unwrap") | (Ty::Opt(inner), "expect") => {
                let x = self.gensym("x_");
                let code = if name == "unwrap" { "P_UNWRAP" } else { "P_EXPECT" };
                pres.push(Pre::Guard(rt, format!("Some {}", x), vec![("None".into(), Code::Panic(code))]));
                Ok((x, (**inner).clone()))
            }
            (Ty::CRes, "expect") => {
                pres.push(Pre::Seq(Code::Raw(format!("expect {}", paren(&rt)))));
                Ok(("tt".into(), Ty::Unit))
            }
            (Ty::NRes, "expect") => {
                pres.push(Pre::Seq(Code::Raw(format!("expect_n {}", paren(&rt)))));
                Ok(("tt".into(), Ty::Unit))
            }
            (Ty::I16, "is_negative") | (Ty::Stamp, "is_negative") => Ok((format!("Z.ltb {} 0", paren(&rt)), Ty::Bool)),
            (Ty::Nat, "wrapping_add") => {
                let (a, _) = self.expr(&m.args[0], pres)?;
                if a != "1" {
                    return Err("wrapping_add of something other than 1".into());
                }
                Ok((format!("S {}", paren(&rt)), Ty::Nat))
            }
            (Ty::NzNat, "get") => Ok((rt, Ty::Nat)),
            (Ty::ListIState, "len") | (Ty::Str, "len") => Ok((format!("List.length {}", paren(&rt)), Ty::Nat)),
            (Ty::ListIState, "last") => Ok((format!("last_opt {}", paren(&rt)), Ty::opt(Ty::IState))),
            (Ty::Str, "is_empty") => Ok((format!("match {} with [] => true | _ => false end", rt), Ty::Bool)),
            (Ty::Str, "find") => {
                let (c, cty) = self.expr(&m.args[0], pres)?;
                if cty != Ty::Char || c != "10%N" {
                    return Err("str::find of something other than a newline".into());
                }
                Ok((format!("find_nl {}", paren(&rt)), Ty::opt(Ty::Nat)))
            }
            (Ty::Nat, "checked_sub") => {
                let (a, _) = self.expr(&m.args[0], pres)?;
                if a != "1" {
                    return Err("checked_sub of something other than 1".into());
                }
                Ok((format!("match {} with O => None | S k_ => Some k_ end", rt), Ty::opt(Ty::Nat)))
            }
            (Ty::URes, "is_ok") => Ok((rt, Ty::Bool)),
            (Ty::AddrRange, "contains") => {
                let (p, pty) = self.expr(&m.args[0], pres)?;
                if pty != Ty::Addr {
                    return Err("Range::contains of a non-address".into());
                }
                Ok((format!("(Z.leb (fst {}) {}) && (Z.ltb {} (snd {}))", paren(&rt), paren(&p), paren(&p), paren(&rt)), Ty::Bool))
            }
            _ => Err(format!("unsupported method `.{}` on {:?} in `{}`", name, rty, ts(m))),
        }
    }

    /// x.ancestors(arena)[.skip(1)].any(|a| y == a)  and  x.descendants(arena).collect()
    fn iter_idiom(&mut self, m: &ExprMethodCall, pres: &mut Vec<Pre>) -> R<(String, Ty)> {
        let name = m.method.to_string();
        let mut recv = &*m.receiver;
        let mut skip1 = false;
        if let Expr::MethodCall(r) = recv {
            if r.method == "skip" {
                if ts(&r.args[0]) != "1" {
                    return Err("skip(n) with n != 1".into());
                }
                skip1 = true;
                recv = &*r.receiver;
            }
        }
        let src = match recv {
            Expr::MethodCall(r) => r,
            _ => return Err(format!("unsupported iterator expression `{}`", ts(m))),
        };
        let it = src.method.to_string();
        let (x, xty) = self.expr(&src.receiver, pres)?;
        if xty != Ty::NodeId {
            return Err("iterator source is not a NodeId".into());
        }
        match (it.as_str(), name.as_str()) {
            ("ancestors", "any") => {
                // closure must be |v| T == v  or  |v| v == T
                let cl = match &m.args[0] {
                    Expr::Closure(c) if c.inputs.len() == 1 => c,
                    _ => return Err("any(..) without a one-parameter closure".into()),
                };
                let v = ts(&cl.inputs[0]);
                let (l, r) = match &*cl.body {
                    Expr::Binary(b) if matches!(b.op, BinOp::Eq(_)) => (&*b.left, &*b.right),
                    _ => return Err("any(..) closure is not an equality test".into()),
                };
                let target = if ts(r) == v { l } else if ts(l) == v { r } else { return Err("any(..) closure does not test its parameter".into()) };
                let (t, tty) = self.expr(target, pres)?;
                if tty != Ty::NodeId {
                    return Err("any(..) target is not a NodeId".into());
                }
                let a = self.fresh_bind("a_", Code::Raw("get_arena".into()), pres);
                let start = if skip1 {
                    // skip(1) pulls (and so reads) the start node first
                    let n = self.fresh_bind("n_", Code::Raw(format!("rdi {}", paren(&x))), pres);
                    format!("(parent {})", n)
                } else {
                    format!("(Some {})", x)
                };
                let b = self.fresh_bind("b_", Code::Raw(format!("lift (anc_any (chain_fuel {}) {} {})", a, start, paren(&t))), pres);
                Ok((b, Ty::Bool))
            }
            ("descendants", "collect") if !skip1 => {
                let l = self.fresh_bind("l_", Code::Raw(format!("lift (descendants {})", paren(&x))), pres);
                Ok((l, Ty::ListNid))
            }
            _ => Err(format!("unsupported iterator idiom `{}`", ts(m))),
        }
    }

    pub fn macro_expr(&mut self, mac: &Macro, pres: &mut Vec<Pre>) -> R<(String, Ty)> {
        let name = path_str(&mac.path);
        match name.as_str() {
            "cfg" => {
                if mac.tokens.to_string().replace(' ', "") == "debug_assertions" {
                    Ok(("dbg".into(), Ty::Bool))
                } else {
                    Err(format!("cfg!({})", mac.tokens))
                }
            }
            "matches" => {
                let args: MatchesArgs = mac.parse_body().map_err(|e| e.to_string())?;
                let (t, ty) = self.expr(&args.e, pres)?;
                self.push();
                let p = self.pat(&args.p, &ty);
                self.pop();
                Ok((format!("match {} with {} => true | _ => false end", t, p?), Ty::Bool))
            }
            "unreachable" => {
                pres.push(Pre::Bind("_".into(), Code::Panic("P_UNREACHABLE")));
                Ok(("tt".into(), Ty::Never))
            }
            _ => Err(format!("unsupported macro {}! in expression position", name)),
        }
    }
}

pub struct MatchesArgs {
    pub e: Expr,
    pub p: Pat,
}
impl parse::Parse for MatchesArgs {
    fn parse(input: parse::ParseStream) -> Result<Self> {
        let e: Expr = input.parse()?;
        let _: Token![,] = input.parse()?;
        let p = Pat::parse_multi(input)?;
        Ok(MatchesArgs { e, p })
    }
}
