(* driver.ml — replays an ops file (PROTOCOL.md) on the extracted Coq model and prints one
   observation line per command.  Only parsing/printing glue lives here; every decision is taken
   by functions extracted from coq/theories (module Model). *)
open Model

(* ---------- conversions ---------- *)
let rec nat_of_int (i : int) : nat = if i <= 0 then O else S (nat_of_int (i - 1))
let rec int_of_nat (n : nat) : int = match n with O -> 0 | S k -> 1 + int_of_nat k

let rec pos_of_int (i : int) : positive =
  if i <= 1 then XH else if i land 1 = 0 then XO (pos_of_int (i lsr 1)) else XI (pos_of_int (i lsr 1))
let rec int_of_pos (p : positive) : int =
  match p with XH -> 1 | XO q -> 2 * int_of_pos q | XI q -> 2 * int_of_pos q + 1
let n_of_int (i : int) : n = if i = 0 then N0 else Npos (pos_of_int i)
let int_of_n (x : n) : int = match x with N0 -> 0 | Npos p -> int_of_pos p
let z_of_int (i : int) : z = if i = 0 then Z0 else if i > 0 then Zpos (pos_of_int i) else Zneg (pos_of_int (-i))
let int_of_z (x : z) : int = match x with Z0 -> 0 | Zpos p -> int_of_pos p | Zneg p -> - (int_of_pos p)

(* ---------- printing ---------- *)
let s_id (x : nid) = Printf.sprintf "%d:%d" (int_of_nat x.idx + 1) (int_of_z x.gen)
let s_oid = function None -> "-" | Some x -> s_id x
let s_onat = function None -> "-" | Some k -> string_of_int (int_of_nat k)
let s_idx1 (x : nid) = string_of_int (int_of_nat x.idx + 1)

let s_err = function
  | AppendSelf -> "AppendSelf" | PrependSelf -> "PrependSelf"
  | InsertBeforeSelf -> "InsertBeforeSelf" | InsertAfterSelf -> "InsertAfterSelf"
  | Removed -> "Removed" | AppendAncestor -> "AppendAncestor" | PrependAncestor -> "PrependAncestor"
  | InsertBeforeAncestor -> "InsertBeforeAncestor" | InsertAfterAncestor -> "InsertAfterAncestor"

let s_outcome = function
  | OutUnit -> "r ok"
  | OutId x -> "r id " ^ s_id x
  | OutErr e -> "r err " ^ s_err e
  | OutPanic _ -> "r panic"
  | OutDiverge -> "r diverge"

let s_slot (nd : node) =
  Printf.sprintf "%d %s %s %s %s %s %s" (int_of_z nd.stamp)
    (match nd.data with Data v -> "D" ^ string_of_int (int_of_n v) | NextFree o -> "F" ^ s_onat o)
    (s_oid nd.parent) (s_oid nd.prev) (s_oid nd.next) (s_oid nd.first) (s_oid nd.last)

let s_arena (a : arena) =
  let b = Buffer.create 256 in
  Buffer.add_string b (Printf.sprintf "a %d %s %s" (List.length a.nodes) (s_onat a.ffree) (s_onat a.lfree));
  List.iter (fun nd -> Buffer.add_string b " | "; Buffer.add_string b (s_slot nd)) a.nodes;
  Buffer.contents b

let s_res (f : 'a -> string) (r : 'a res) =
  match r with Ok x -> f x | Panic _ -> "panic" | Diverge -> "diverge"
let s_ids l = String.concat "," (List.map s_idx1 l)
let s_edge = function Start x -> "S" ^ s_idx1 x | End_ x -> "E" ^ s_idx1 x
let s_edges l = String.concat "," (List.map s_edge l)

let hex_of_bytes (l : n list) =
  let b = Buffer.create 64 in
  List.iter (fun x -> Buffer.add_string b (Printf.sprintf "%02x" (int_of_n x))) l;
  Buffer.contents b
let bytes_of_hex (s : string) : n list =
  let r = ref [] in
  let k = String.length s / 2 in
  for i = k - 1 downto 0 do
    r := n_of_int (int_of_string ("0x" ^ String.sub s (2 * i) 2)) :: !r
  done; !r

let s_sname = function NArena -> "Arena" | NNode -> "Node" | NNodeId -> "NodeId" | NNodeStamp -> "NodeStamp" | NNodeData -> "NodeData"
let s_fname = function
  | Fnodes -> "nodes" | Ffirst_free_slot -> "first_free_slot" | Flast_free_slot -> "last_free_slot"
  | Fparent_ -> "parent" | Fprevious_sibling -> "previous_sibling" | Fnext_sibling -> "next_sibling"
  | Ffirst_child -> "first_child" | Flast_child -> "last_child" | Fstamp -> "stamp" | Fdata -> "data"
  | Findex1 -> "index1"
let s_tok = function
  | TStruct (nm, k) -> Printf.sprintf "St%s/%d" (s_sname nm) (int_of_nat k)
  | TField f -> "F" ^ s_fname f
  | TSeq k -> Printf.sprintf "Seq%d" (int_of_nat k)
  | TNone -> "None" | TSome -> "Some"
  | TU v -> "U" ^ string_of_int (int_of_n v)
  | TI v -> "I" ^ string_of_int (int_of_z v)
  | TNS nm -> "NS" ^ s_sname nm
  | TNV VData -> "NVNodeData::Data/0"
  | TNV VNextFree -> "NVNodeData::NextFree/1"
  | TEnd -> "End"

(* ---------- state ---------- *)
type side = { w : world; reported : int }      (* reported = how many entries of w.dropped were printed *)
let fresh () = { w = init; reported = 0 }

let dbg = ref true
let cur = ref (fresh ())
let alt : side option ref = ref None
let rend_tbl : (int * int, n list list) Hashtbl.t = Hashtbl.create 64

let decimal_bytes (v : int) : n list =
  List.map (fun c -> n_of_int (Char.code c)) (List.of_seq (String.to_seq (string_of_int v)))
let rendering : rendering = fun v mode ->
  let vi = int_of_n v and mi = int_of_nat mode in
  match Hashtbl.find_opt rend_tbl (vi, mi) with Some c -> c | None -> [decimal_bytes vi]

let handle (k : int) : nid option = List.nth_opt !cur.w.issued k

let do_step (o : op) : string =
  let (w', out) = step !dbg !cur.w o in
  cur := { !cur with w = w' };
  s_outcome out

let rec drop_n k l = if k <= 0 then l else match l with [] -> [] | _ :: t -> drop_n (k - 1) t
let s_payloads l = String.concat "" (List.map (fun v -> " " ^ string_of_int (int_of_n v)) l)

let with1 a f = match handle (int_of_string a) with Some x -> f x | None -> "r badhandle"
let with2 a b f = match handle (int_of_string a), handle (int_of_string b) with
  | Some x, Some y -> f x y | _ -> "r badhandle"

let inskind_of = function
  | "app" | "capp" -> KAppend | "pre" | "cpre" -> KPrepend
  | "ia" | "cia" -> KAfter | "ib" | "cib" -> KBefore | _ -> failwith "inskind"

let q_iters (x : nid) : string =
  let a = !cur.w.ar in
  let f name r = name ^ "=" ^ s_res s_ids r in
  let g name r = name ^ "=" ^ s_res s_edges r in
  String.concat " "
    [ "i"; f "anc" (ancestors x a); f "pred" (predecessors x a); f "prec" (preceding_siblings x a);
      f "foll" (following_siblings x a); f "ch" (children x a); f "rch" (reverse_children x a);
      f "desc" (descendants x a); g "trav" (traverse x a); g "rtrav" (reverse_traverse x a);
      g "nt" (traverse x a); g "pt" (reverse_traverse x a) ]

let process (line : string) : string option =
  let toks = String.split_on_char ' ' (String.trim line) in
  match toks with
  | [] | [""] -> None
  | c :: _ when String.length c > 0 && c.[0] = '#' -> None
  | ["hist"; k] -> cur := fresh (); alt := None; Hashtbl.reset rend_tbl; Some ("h " ^ k)
  | ["new"; v] -> Some (do_step (ONew (n_of_int (int_of_string v))))
  | ["appv"; p; v] -> Some (with1 p (fun x -> do_step (OAppendValue (x, n_of_int (int_of_string v)))))
  | [("app" | "pre" | "ia" | "ib") as k; a; b] ->
      Some (with2 a b (fun x y -> do_step (OInsert (inskind_of k, false, x, y))))
  | [("capp" | "cpre" | "cia" | "cib") as k; a; b] ->
      Some (with2 a b (fun x y -> do_step (OInsert (inskind_of k, true, x, y))))
  | ["det"; a] -> Some (with1 a (fun x -> do_step (ODetach x)))
  | ["rem"; a] -> Some (with1 a (fun x -> do_step (ORemove x)))
  | ["rst"; a] -> Some (with1 a (fun x -> do_step (ORemoveSubtree x)))
  | ["wr"; a; v] -> Some (with1 a (fun x -> do_step (OWrite (x, n_of_int (int_of_string v)))))
  | ["clear"] -> Some (do_step OClear)
  | ["reserve"; k] -> Some (do_step (OReserve (nat_of_int (int_of_string k))))
  | ["fork"] ->
      alt := Some { w = { !cur.w with dropped = [] }; reported = 0 }; Some "r ok"
  | ["swap"] ->
      (match !alt with
       | Some a -> let c = !cur in cur := a; alt := Some c
       | None -> ());
      Some "r ok"
  | ["serde"] ->
      let ts = encode !cur.w.ar in
      let s = "s " ^ String.concat " " (List.map s_tok ts) in
      (match decode ts with
       | Some (a', []) -> cur := { !cur with w = { !cur.w with ar = a' } }; Some s
       | _ -> Some (s ^ " DESERFAIL model"))
  | ["rend"; v; mode; chunks] ->
      let cs = if chunks = "-" then [] else List.map bytes_of_hex (String.split_on_char ',' chunks) in
      Hashtbl.replace rend_tbl (int_of_string v, int_of_string mode) cs; Some "k"
  | ["qa"] -> Some (s_arena !cur.w.ar)
  | ["qeq"] -> Some (match !alt with None -> "e -" | Some a -> if a.w.ar = !cur.w.ar then "e 1" else "e 0")
  | ["qr"] ->
      let a = !cur.w.ar in
      let s = String.concat "" (List.map (fun x ->
        match id_is_removed x a with Ok true -> "1" | Ok false -> "0" | _ -> "p") !cur.w.issued) in
      Some (if s = "" then "m" else "m " ^ s)
  | ["ql"] ->
      let a = !cur.w.ar in
      let c = int_of_nat (count a) in
      let ids = List.init (c + 2) (fun k -> s_oid (get_node_id_at a (nat_of_int (k + 1)))) in
      Some (String.concat " " ("l" :: string_of_int c :: (if is_empty a then "1" else "0") :: ids))
  | ["qf"] ->
      Some (String.concat " " ("f" :: List.map (fun k -> string_of_int (int_of_nat k)) (free_list !cur.w.ar)))
  | ["qi"; h] -> Some (match handle (int_of_string h) with Some x -> q_iters x | None -> "r badhandle")
  | ["qd"; h; which; pat] ->
      Some (match handle (int_of_string h) with
        | None -> "r badhandle"
        | Some x ->
          let k = (match which with "ch" -> DChildren | "prec" -> DPreceding | "foll" -> DFollowing | _ -> failwith "qd") in
          let pulls = List.map (fun c -> c = 'f') (List.of_seq (String.to_seq pat)) in
          (match de_run k x pulls !cur.w.ar with
           | Ok l -> "d " ^ String.concat "," (List.map (function None -> "-" | Some y -> s_idx1 y) l)
           | Panic _ -> "d panic" | Diverge -> "d diverge"))
  | ["qp"; h; mode] ->
      Some (match handle (int_of_string h) with
        | None -> "r badhandle"
        | Some x ->
          (match pretty_print !dbg rendering (nat_of_int (int_of_string mode)) x !cur.w.ar with
           | Ok b -> "p " ^ hex_of_bytes b | Panic _ -> "p panic" | Diverge -> "p diverge"))
  | ["drops"] ->
      let l = drop_n !cur.reported !cur.w.dropped in
      cur := { !cur with reported = List.length !cur.w.dropped };
      Some ("x" ^ s_payloads l)
  | ["end"] ->
      let c = drop_n !cur.reported (drop_arena !cur.w) in
      let a = (match !alt with Some a -> drop_n a.reported (drop_arena a.w) | None -> []) in
      cur := fresh (); alt := None;
      Some ("x" ^ s_payloads c ^ " ;" ^ s_payloads a)
  | _ -> Some ("? " ^ line)

let () =
  let ops = ref "" and obs = ref "" in
  let args = Array.to_list Sys.argv in
  let rec parse = function
    | "--ops" :: f :: r -> ops := f; parse r
    | "--obs" :: f :: r -> obs := f; parse r
    | "--dbg" :: v :: r -> dbg := (v = "1"); parse r
    | _ :: r -> parse r
    | [] -> () in
  parse (List.tl args);
  if !ops = "" || !obs = "" then (prerr_endline "usage: runner --ops F --obs F [--dbg 0|1]"; exit 2);
  let ic = open_in !ops and oc = open_out !obs in
  (try
     while true do
       let line = input_line ic in
       match process line with
       | Some s -> output_string oc s; output_char oc '\n'
       | None -> ()
     done
   with End_of_file -> ());
  close_in ic; close_out oc
