(* driver.ml — replays an ops file (PROTOCOL.md) on the extracted Coq model and prints one
   observation line per command.  Only parsing/printing glue lives here; every decision is taken
   by functions extracted from coq/theories (module Model). *)
open Model

(* ---------- conversions ---------- *)
let rec nat_of_int (i : int) : nat = if i <= 0 then O else S (nat_of_int (i - 1))
let rec int_of_nat (n : nat) : int = match n with O -> 0 | S k -> 1 + int_of_nat k

let rec pos_of_int (i : int) : positive =
  if i <= 1 then XH else if i land 1 = 0 then XO (pos_of_int (i lsr 1)) else XI (pos_of_int (i lsr 1))
let rec int_of_pos (p : positive) : int =
  match p with XH -> 1 | XO q -> 2 * int_of_pos q | XI q -> 2 * int_of_pos q + 1
let n_of_int (i : int) : n = if i = 0 then N0 else Npos (pos_of_int i)
let int_of_n (x : n) : int = match x with N0 -> 0 | Npos p -> int_of_pos p
let z_of_int (i : int) : z = if i = 0 then Z0 else if i > 0 then Zpos (pos_of_int i) else Zneg (pos_of_int (-i))
let int_of_z (x : z) : int = match x with Z0 -> 0 | Zpos p -> int_of_pos p | Zneg p -> - (int_of_pos p)

(* ---------- printing ---------- *)
let s_id (x : nid) = Printf.sprintf "%d:%d" (int_of_nat x.idx + 1) (int_of_z x.gen)
let s_oid = function None -> "-" | Some x -> s_id x
let s_onat = function None -> "-" | Some k -> string_of_int (int_of_nat k)
let s_idx1 (x : nid) = string_of_int (int_of_nat x.idx + 1)

let s_err = function
  | AppendSelf -> "AppendSelf" | PrependSelf -> "PrependSelf"
  | InsertBeforeSelf -> "InsertBeforeSelf" | InsertAfterSelf -> "InsertAfterSelf"
  | Removed -> "Removed" | AppendAncestor -> "AppendAncestor" | PrependAncestor -> "PrependAncestor"
  | InsertBeforeAncestor -> "InsertBeforeAncestor" | InsertAfterAncestor -> "InsertAfterAncestor"

let s_outcome = function
  | OutUnit -> "r ok"
  | OutId x -> "r id " ^ s_id x
  | OutErr e -> "r err " ^ s_err e
  | OutPanic _ -> "r panic"
  | OutDiverge -> "r diverge"

let s_slot (nd : node) =
  Printf.sprintf "%d %s %s %s %s %s %s" (int_of_z nd.stamp)
    (match nd.data with Data v -> "D" ^ string_of_int (int_of_n v) | NextFree o -> "F" ^ s_onat o)
    (s_oid nd.parent) (s_oid nd.prev) (s_oid nd.next) (s_oid nd.first) (s_oid (node_last nd))

let s_arena (a : arena) =
  let b = Buffer.create 256 in
  Buffer.add_string b (Printf.sprintf "a %d %s %s" (List.length a.nodes) (s_onat a.ffree) (s_onat a.lfree));
  List.iter (fun nd -> Buffer.add_string b " | "; Buffer.add_string b (s_slot nd)) a.nodes;
  Buffer.contents b

let s_res (f : 'a -> string) (r : 'a res) =
  match r with Ok x -> f x | Panic _ -> "panic" | Diverge -> "diverge"
let s_ids l = String.concat "," (List.map s_idx1 l)
let s_edge = function Start x -> "S" ^ s_idx1 x | End_ x -> "E" ^ s_idx1 x
let s_edges l = String.concat "," (List.map s_edge l)
let s_oedge = function Some e -> s_edge e | None -> "-"

let hex_of_bytes (l : n list) =
  let b = Buffer.create 64 in
  List.iter (fun x -> Buffer.add_string b (Printf.sprintf "%02x" (int_of_n x))) l;
  Buffer.contents b
let bytes_of_hex (s : string) : n list =
  let r = ref [] in
  let k = String.length s / 2 in
  for i = k - 1 downto 0 do
    r := n_of_int (int_of_string ("0x" ^ String.sub s (2 * i) 2)) :: !r
  done; !r

let s_sname = function NArena -> "Arena" | NNode -> "Node" | NNodeId -> "NodeId" | NNodeStamp -> "NodeStamp" | NNodeData -> "NodeData"
let s_fname = function
  | Fnodes -> "nodes" | Ffirst_free_slot -> "first_free_slot" | Flast_free_slot -> "last_free_slot"
  | Fparent_ -> "parent" | Fprevious_sibling -> "previous_sibling" | Fnext_sibling -> "next_sibling"
  | Ffirst_child -> "first_child" | Flast_child -> "last_child" | Fstamp -> "stamp" | Fdata -> "data"
  | Findex1 -> "index1"
let s_tok = function
  | TStruct (nm, k) -> Printf.sprintf "St%s/%d" (s_sname nm) (int_of_nat k)
  | TField f -> "F" ^ s_fname f
  | TSeq k -> Printf.sprintf "Seq%d" (int_of_nat k)
  | TNone -> "None" | TSome -> "Some"
  | TU v -> "U" ^ string_of_int (int_of_n v)
  | TI v -> "I" ^ string_of_int (int_of_z v)
  | TNS nm -> "NS" ^ s_sname nm
  | TNV VData -> "NVNodeData::Data/0"
  | TNV VNextFree -> "NVNodeData::NextFree/1"
  | TEnd -> "End"

(* ---------- state ---------- *)
(* reported = how many entries of w.dropped were printed; harr/hn = the issued table as an array *)
type side = { w : world; reported : int; harr : nid array ref; hn : int ref; pend : n list }
let dummy_id = { idx = O; gen = Z0 }
let fresh () = { w = init; reported = 0; harr = ref (Array.make 16 dummy_id); hn = ref 0; pend = [] }
let push_handle (s : side) (x : nid) =
  if !(s.hn) >= Array.length !(s.harr) then s.harr := Array.append !(s.harr) (Array.make (Array.length !(s.harr)) dummy_id);
  !(s.harr).(!(s.hn)) <- x; incr s.hn
let copy_side (s : side) = { s with harr = ref (Array.copy !(s.harr)); hn = ref !(s.hn) }

let dbg = ref true
let cur = ref (fresh ())
let alt : side option ref = ref None
let rend_tbl : (int * int, n list list) Hashtbl.t = Hashtbl.create 64
let strip_c (c : string) : string = if String.length c > 0 && c.[0] = 'w' then String.sub c 1 (String.length c - 1) else c

let decimal_bytes (v : int) : n list =
  List.map (fun c -> n_of_int (Char.code c)) (List.of_seq (String.to_seq (string_of_int v)))
let rendering : rendering = fun v mode ->
  let vi = int_of_n v and mi = int_of_nat mode in
  match Hashtbl.find_opt rend_tbl (vi, mi) with Some c -> c | None -> [decimal_bytes vi]

let handle (k : int) : nid option = if k >= 0 && k < !(!cur.hn) then Some !(!cur.harr).(k) else None

let do_step (o : op) : string =
  let (w', out) = step !dbg !cur.w o in
  (* the ghost lists never influence [step]; the drop log is moved to [pend] (newest first) and the
     id lists are dropped so that very long histories stay linear *)
  cur := { !cur with w = { w' with issued = []; removed = []; dropped = [] };
                     pend = List.rev_append w'.dropped !cur.pend };
  (match out with OutId x -> push_handle !cur x | _ -> ());
  (match o with OClear -> !cur.hn := 0 | _ -> ());
  s_outcome out

let rec drop_n k l = if k <= 0 then l else match l with [] -> [] | _ :: t -> drop_n (k - 1) t
let s_payloads l = String.concat "" (List.map (fun v -> " " ^ string_of_int (int_of_n v)) l)

(* `g<k>`: the id the arena reports for the node stored at position k (get_node_id of that node): slot k-1 with its
   current stamp, whether live or removed *)
let lookup_tok (a : arena) (tok : string) : nid option =
  let k = int_of_string (String.sub tok 1 (String.length tok - 1)) in
  if k < 1 then None else
  (match List.nth_opt a.nodes (k - 1) with Some nd -> Some { idx = nat_of_int (k - 1); gen = nd.stamp } | None -> None)
let tok_handle (tok : string) : nid option =
  if String.length tok > 1 && tok.[0] = 'g' then lookup_tok !cur.w.ar tok else handle (int_of_string tok)
let with1 a f = match tok_handle a with Some x -> f x | None -> "r badhandle"
let with2 a b f = match tok_handle a, tok_handle b with
  | Some x, Some y -> f x y | _ -> "r badhandle"

let inskind_of = function
  | "app" | "capp" -> KAppend | "pre" | "cpre" -> KPrepend
  | "ia" | "cia" -> KAfter | "ib" | "cib" -> KBefore | _ -> failwith "inskind"

let q_iters (x : nid) : string =
  let a = !cur.w.ar in
  let f name r = name ^ "=" ^ s_res s_ids r in
  let g name r = name ^ "=" ^ s_res s_edges r in
  String.concat " "
    [ "i"; f "anc" (ancestors x a); f "pred" (predecessors x a); f "prec" (preceding_siblings x a);
      f "foll" (following_siblings x a); f "ch" (children x a); f "rch" (reverse_children x a);
      f "desc" (descendants x a); g "trav" (traverse x a); g "rtrav" (reverse_traverse x a);
      g "nt" (traverse x a); g "pt" (reverse_traverse x a);
      (* one raw step that leaves the subtree: End(x).next_traverse and Start(x).prev_traverse *)
      "n1=" ^ s_res s_oedge (next_traverse (End_ x) a); "p1=" ^ s_res s_oedge (prev_traverse (Start x) a) ]

let process (line : string) : string option =
  let toks = String.split_on_char ' ' (String.trim line) in
  match toks with
  | [] | [""] -> None
  | c :: _ when String.length c > 0 && c.[0] = '#' -> None
  | ["hist"; k] -> cur := fresh (); alt := None; Hashtbl.reset rend_tbl; Some ("h " ^ k)
  | ["new"; v] -> Some (do_step (ONew (n_of_int (int_of_string v))))
  | ["appv"; p; v] -> Some (with1 p (fun x -> do_step (OAppendValue (x, n_of_int (int_of_string v)))))
  | [("app" | "pre" | "ia" | "ib") as k; a; b] ->
      Some (with2 a b (fun x y -> do_step (OInsert (inskind_of k, false, x, y))))
  | [("capp" | "cpre" | "cia" | "cib") as k; a; b] ->
      Some (with2 a b (fun x y -> do_step (OInsert (inskind_of k, true, x, y))))
  | ["det"; a] -> Some (with1 a (fun x -> do_step (ODetach x)))
  | ["rem"; a] -> Some (with1 a (fun x -> do_step (ORemove x)))
  | ["rst"; a] -> Some (with1 a (fun x -> do_step (ORemoveSubtree x)))
  | ["wr"; a; v] -> Some (with1 a (fun x -> do_step (OWrite (x, n_of_int (int_of_string v)))))
  | ["clear"] -> Some (do_step OClear)
  | ["reserve"; k] -> Some (do_step (OReserve (nat_of_int (int_of_string k))))
  | ["fork"] | ["forkfrom"] ->
      alt := Some { (copy_side !cur) with pend = []; reported = 0 }; Some "r ok"
  | ["swap"] ->
      (match !alt with
       | Some a -> let c = !cur in cur := a; alt := Some c
       | None -> ());
      Some "r ok"
  | ["serde"] ->
      let ts = encode !cur.w.ar in
      let s = "s " ^ String.concat " " (List.map s_tok ts) in
      (match decode ts with
       | Some (a', []) -> cur := { !cur with w = { !cur.w with ar = a' } }; Some s
       | _ -> Some (s ^ " DESERFAIL model"))
  | ["rend"; v; mode; chunks] ->
      let cs = if chunks = "-" then [] else List.map bytes_of_hex (List.map strip_c (String.split_on_char ',' chunks)) in
      Hashtbl.replace rend_tbl (int_of_string v, int_of_string mode) cs; Some "k"
  | ["qa"] -> Some (s_arena !cur.w.ar)
  | ["qeq"] -> Some (match !alt with None -> "e -" | Some a -> if a.w.ar = !cur.w.ar then "e 1" else "e 0")
  | ["qr"] ->
      let a = !cur.w.ar in
      let b = Buffer.create 64 in
      for i = 0 to !(!cur.hn) - 1 do
        Buffer.add_char b (match id_is_removed !(!cur.harr).(i) a with Ok true -> '1' | Ok false -> '0' | _ -> 'p')
      done;
      let s = Buffer.contents b in
      Some (if s = "" then "m" else "m " ^ s)
  | ["ql"] ->
      let a = !cur.w.ar in
      let c = int_of_nat (count a) in
      let ids = List.init (c + 2) (fun k -> s_oid (get_node_id_at a (nat_of_int (k + 1)))) in
      Some (String.concat " " ("l" :: string_of_int c :: (if is_empty a then "1" else "0") :: ids))
  | ["qav"; p; v] ->
      Some (match handle (int_of_string p) with
        | None -> "r badhandle"
        | Some x ->
            let pv = n_of_int (int_of_string v) in
            let (w1, o1) = step !dbg !cur.w (OAppendValue (x, pv)) in
            let (w2, o2) = step !dbg !cur.w (ONew pv) in
            (match o1, o2 with
             | OutId x1, OutId x2 ->
                 let (w3, o3) = step !dbg w2 (OInsert (KAppend, false, x, x2)) in
                 (match o3 with
                  | OutUnit -> if nid_eqb x1 x2 && arena_eqb w1.ar w3.ar then "v 1" else "v 0"
                  | _ -> "v panic")
             | _, _ -> "v panic"))
  | ["qf"] ->
      Some (String.concat " " ("f" :: List.map (fun k -> string_of_int (int_of_nat k)) (free_list !cur.w.ar)))
  | ["qi"; h] -> Some (match handle (int_of_string h) with Some x -> q_iters x | None -> "r badhandle")
  | ["qx"; h] -> Some (match handle (int_of_string h) with Some _ -> "y ok" | None -> "r badhandle")
  | ["qd"; h; which; pat] ->
      Some (match handle (int_of_string h) with
        | None -> "r badhandle"
        | Some x ->
          let k = (match which with "ch" -> DChildren | "prec" -> DPreceding | "foll" -> DFollowing | _ -> failwith "qd") in
          let pulls = List.map (fun c -> c = 'f') (List.of_seq (String.to_seq pat)) in
          (match de_run k x pulls !cur.w.ar with
           | Ok l -> "d " ^ String.concat "," (List.map (function None -> "-" | Some y -> s_idx1 y) l)
           | Panic _ -> "d panic" | Diverge -> "d diverge"))
  | ["qp"; h; mode] ->
      Some (match handle (int_of_string h) with
        | None -> "r badhandle"
        | Some x ->
          (match pretty_print !dbg rendering (nat_of_int (int_of_string mode)) x !cur.w.ar with
           | Ok b -> "p " ^ hex_of_bytes b | Panic _ -> "p panic" | Diverge -> "p diverge"))
  | ["drops"] ->
      let l = List.rev !cur.pend in
      cur := { !cur with pend = [] };
      Some ("x" ^ s_payloads l)
  | ["end"] ->
      let c = List.rev !cur.pend @ drop_arena !cur.w in
      let a = (match !alt with Some a -> List.rev a.pend @ drop_arena a.w | None -> []) in
      cur := fresh (); alt := None;
      Some ("x" ^ s_payloads c ^ " ;" ^ s_payloads a)
  | _ -> Some ("? " ^ line)


(* ====================================================================================
   Monitor mode: evaluate the property statements (extracted from coq/theories/Monitor.v)
   on the states OBSERVED ON THE IMPLEMENTATION.  Input: the ops file and the
   implementation's observation file, line by line in lockstep.
   ==================================================================================== *)
let split_on_string (sep : string) (s : string) : string list =
  let n = String.length sep and l = String.length s in
  let rec go start i acc =
    if i + n > l then List.rev (String.sub s start (l - start) :: acc)
    else if String.sub s i n = sep then go (i + n) (i + n) (String.sub s start (i - start) :: acc)
    else go start (i + 1) acc in
  go 0 0 []

let p_id (t : string) : nid =
  match String.split_on_char ':' t with
  | [i; g] -> { idx = nat_of_int (int_of_string i - 1); gen = z_of_int (int_of_string g) }
  | _ -> failwith ("bad id " ^ t)
let p_oid t = if t = "-" then None else Some (p_id t)
let p_onat t = if t = "-" then None else Some (nat_of_int (int_of_string t))

let p_slot (t : string) : node =
  match String.split_on_char ' ' (String.trim t) with
  | [st; d; pa; pv; nx; fc; lc] ->
      let data = if d.[0] = 'D' then Data (n_of_int (int_of_string (String.sub d 1 (String.length d - 1))))
                 else NextFree (p_onat (String.sub d 1 (String.length d - 1))) in
      mk_node (p_oid pa) (p_oid pv) (p_oid nx) (p_oid fc) (p_oid lc) (z_of_int (int_of_string st)) data
  | _ -> failwith ("bad slot " ^ t)

let p_arena (line : string) : arena option =
  match split_on_string " | " line with
  | hd :: slots ->
      (match String.split_on_char ' ' hd with
       | ["a"; _; ff; lf] -> (try Some { nodes = List.map p_slot slots; ffree = p_onat ff; lfree = p_onat lf } with _ -> None)
       | _ -> None)
  | [] -> None

let p_err = function
  | "AppendSelf" -> AppendSelf | "PrependSelf" -> PrependSelf | "InsertBeforeSelf" -> InsertBeforeSelf
  | "InsertAfterSelf" -> InsertAfterSelf | "Removed" -> Removed | "AppendAncestor" -> AppendAncestor
  | "PrependAncestor" -> PrependAncestor | "InsertBeforeAncestor" -> InsertBeforeAncestor
  | "InsertAfterAncestor" -> InsertAfterAncestor | s -> failwith ("unknown error variant " ^ s)

type mside = { mar : arena; mh : nid array ref; mn : int ref; mset : (int * int, unit) Hashtbl.t;
               mflags : string; mever : int list; mdrops : int list }
let mfresh () = { mar = empty_arena; mh = ref (Array.make 16 dummy_id); mn = ref 0; mset = Hashtbl.create 64;
                  mflags = ""; mever = []; mdrops = [] }
let mcopy (s : mside) = { s with mh = ref (Array.copy !(s.mh)); mn = ref !(s.mn); mset = Hashtbl.copy s.mset }
let mpush (s : mside) (x : nid) =
  if !(s.mn) >= Array.length !(s.mh) then s.mh := Array.append !(s.mh) (Array.make (Array.length !(s.mh)) dummy_id);
  !(s.mh).(!(s.mn)) <- x; incr s.mn;
  Hashtbl.replace s.mset (int_of_nat x.idx, int_of_z x.gen) ()

let monitor (opsf : string) (obsf : string) (outf : string) =
  let ic = open_in opsf and ib = open_in obsf and oc = open_out outf in
  let counts : (string, int) Hashtbl.t = Hashtbl.create 16 in
  let bump p = Hashtbl.replace counts p (1 + (try Hashtbl.find counts p with Not_found -> 0)) in
  let hist = ref (-1) and stepn = ref 0 in
  let cur = ref (mfresh ()) and alt : mside option ref = ref None in
  let pending : (string * op option * outcome option * arena) option ref = ref None in
  (* [fresh]: the tracked arena is the state right before the next command (a dump followed the last
     mutating command).  A step can only be judged against the documented effect when it is. *)
  let fresh = ref true in
  let expect_drop : int list ref = ref [] in
  let lastcmd = ref "" in
  let report prop msg =
    Printf.fprintf oc "MON %s hist=%d step=%d cmd=[%s] %s\n" prop !hist !stepn !lastcmd msg in
  let codes l = String.concat "," (List.map (fun c -> string_of_int (int_of_n c)) l) in
  let mhandle k = if k >= 0 && k < !(!cur.mn) then Some !(!cur.mh).(k) else None in
  let stored (a : arena) = List.filter_map (fun nd -> match nd.data with Data v -> Some (int_of_n v) | _ -> None) a.nodes in
  let same_multiset l1 l2 = List.sort compare l1 = List.sort compare l2 in
  let nodup l = let s = List.sort compare l in let rec go = function a :: (b :: _ as r) -> a <> b && go r | _ -> true in go s in
  let state_checks (a : arena) =
    bump "C01"; (match c01_check a with [] -> () | l ->
       report "C01" ("links not a well-formed forest, clauses " ^ codes l);
       if List.exists (fun c -> int_of_n c = 1) l then report "C12" "a link of a live node names a removed node or an id of an earlier generation");
    bump "C02"; (match c02_check a with [] -> () | l -> report "C02" ("walk does not end, clauses " ^ codes l));
    bump "C12"; (match c12_state a with [] -> () | _ -> report "C12" "a removed slot still has links") in
  let on_arena (a' : arena) =
    (match !pending with
     | Some (cmd, Some o, Some out, a0) ->
         let failed = check_step a0 o out a' in
         let props = (match o with
           | OInsert _ -> ["C03"; "C05"; "C12"] | ODetach _ -> ["C03"; "C05"]
           | ORemove _ | ORemoveSubtree _ -> ["C04"; "C05"; "C08"]
           | ONew _ -> ["C07"; "C08"; "C05"] | OAppendValue _ -> ["C03"; "C07"; "C12"; "C05"]
           | OWrite _ -> ["C08"; "C05"] | OClear -> ["C13"] | OReserve _ -> ["C13"]) in
         List.iter bump props;
         (match o, out with
          | (ONew _ | OAppendValue _), OutId z ->
              bump "C11";
              (match spec_id_at a' (nat_of_int (int_of_nat z.idx + 1)) with
               | Some y when nid_eqb y z -> ()
               | other -> report "C11" (Printf.sprintf "the id %s returned at creation is not what lookup by its position gives (%s)" (s_id z) (s_oid other)))
          | ORemove x, OutUnit ->
              expect_drop := int_of_n (payload_at a0 x) :: !expect_drop;
              bump "C11";
              (match spec_id_at a' (nat_of_int (int_of_nat x.idx + 1)) with
               | Some y when nid_eqb y x -> report "C11" (Printf.sprintf "lookup by position still returns the id %s of a node that was just removed" (s_id x))
               | _ -> ())
          | _ -> ());
         List.iter (fun c ->
           let ci = int_of_n c in
           let dead_arg = (match o with
             | OInsert (_, _, x, y) -> slot_removed_b a0 x || slot_removed_b a0 y
             | OAppendValue (p, _) -> slot_removed_b a0 p | _ -> false) in
           let prop = (match o, ci with
             | _, (10 | 11 | 12) -> if dead_arg then "C12" else "C05"
             | (ORemove _ | ORemoveSubtree _), _ -> if ci = 41 then "C08" else "C04"
             | ONew _, 20 -> "C03" | ONew _, _ -> "C07"
             | OAppendValue _, 20 -> "C03" | OAppendValue _, _ -> "C07"
             | OWrite _, _ -> "C08"
             | (OClear | OReserve _), _ -> "C13"
             | _, 21 -> "C08"
             | (ORemove _ | ORemoveSubtree _), 22 -> "C04"
             | _, _ -> "C03") in
           report prop (Printf.sprintf "step effect differs from the documented one (clause %d) after %s" ci cmd);
           (* "remove deletes exactly x ... and nothing else changes": a bystander's payload is part of "nothing else" *)
           (match o with
            | (ORemove _ | ORemoveSubtree _) when ci = 41 -> report "C04" (Printf.sprintf "a removal changed the payload of a node it did not remove (clause %d) after %s" ci cmd)
            (* a valid call that does not end as documented (clause 10: e.g. it panics) also breaks the property that
               describes the call's effect *)
            | (ORemove _ | ORemoveSubtree _) when ci = 10 -> report "C04" (Printf.sprintf "a removal of a live node did not succeed (clause %d) after %s" ci cmd)
            | (OInsert _ | ODetach _ | OAppendValue _) when ci = 10 && not dead_arg -> report "C03" (Printf.sprintf "a possible insert / detach / append_value did not succeed (clause %d) after %s" ci cmd)
            | ONew _ when ci = 10 -> report "C07" (Printf.sprintf "new_node did not succeed (clause %d) after %s" ci cmd)
            | (OClear | OReserve _) when ci = 10 -> report "C13" (Printf.sprintf "clear / reserve did not succeed (clause %d) after %s" ci cmd)
            | OInsert (_, false, _, _) when ci = 20 || ci = 21 || ci = 22 -> report "C05" (Printf.sprintf "an unchecked insert that did not panic has an effect different from the checked form's documented effect (clause %d) after %s" ci cmd)
            | _ -> ());
           if dead_arg && (ci = 10 || ci = 11 || ci = 12) then report "C05" (Printf.sprintf "insert with a removed node mishandled (clause %d)" ci)) failed
     | Some (cmd, None, _, a0) ->
         (match cmd with
          | "fork" -> bump "C13"; if not (arena_eqb a0 a') then report "C13" "fork changed the original"
          | "swap" -> bump "C13"     (* cur is already the swapped-in value: a0 is its tracked state *)
                     ; if not (arena_eqb a0 a') then report "C13" "the other arena value changed while it was not in use"
          | "serde" -> bump "C16"; if not (arena_eqb a0 a') then report "C16" "deserialize(serialize(a)) differs from a"
          | _ -> ())
     | _ -> ());
    pending := None;
    fresh := true;
    cur := { !cur with mar = a' };
    state_checks a' in
  (try
     while true do
       let line = String.trim (input_line ic) in
       if line = "" || line.[0] = '#' then ()
       else begin
         (* the observation file ends early when the implementation did not return from a call (the caller reports
            that separately): nothing further can be judged *)
         let obs = input_line ib in
         lastcmd := line; incr stepn;
         let toks = String.split_on_char ' ' line in
         let otoks = String.split_on_char ' ' obs in
         let outcome_of () = (match otoks with
           | ["r"; "ok"] -> Some OutUnit | ["r"; "id"; i] -> Some (OutId (p_id i))
           | ["r"; "err"; e] -> Some (OutErr (p_err e)) | ["r"; "panic"] -> Some (OutPanic N0)
           | ["r"; "diverge"] -> Some OutDiverge | _ -> None) in
         let setp o = (if !fresh then pending := Some (line, o, outcome_of (), !cur.mar) else pending := None); fresh := false in
         let mtok tok = if String.length tok > 1 && tok.[0] = 'g' then lookup_tok !cur.mar tok else mhandle (int_of_string tok) in
         let h1 a f = (match mtok a with Some x -> setp (Some (f x)) | None -> ()) in
         let h2 a b f = (match mtok a, mtok b with
           | Some x, Some y -> setp (Some (f x y)) | _ -> ()) in
         let new_id v = (match otoks with
           | ["r"; "id"; i] ->
               let x = p_id i in
               bump "C06";
               if Hashtbl.mem !cur.mset (int_of_nat x.idx, int_of_z x.gen) then report "C06" ("id " ^ i ^ " was issued before");
               mpush !cur x;
               cur := { !cur with mever = v :: !cur.mever }
           | _ -> ()) in
         (match toks with
          | ["hist"; k] -> hist := int_of_string k; stepn := 0; cur := mfresh (); alt := None; pending := None; fresh := true; expect_drop := [];
                           Hashtbl.reset rend_tbl
          | ["new"; v] -> setp (Some (ONew (n_of_int (int_of_string v)))); new_id (int_of_string v)
          | ["appv"; p; v] -> h1 p (fun x -> OAppendValue (x, n_of_int (int_of_string v))); new_id (int_of_string v)
          | [("app" | "pre" | "ia" | "ib") as k; a; b] -> h2 a b (fun x y -> OInsert (inskind_of k, false, x, y))
          | [("capp" | "cpre" | "cia" | "cib") as k; a; b] -> h2 a b (fun x y -> OInsert (inskind_of k, true, x, y))
          | ["det"; a] -> h1 a (fun x -> ODetach x)
          | ["rem"; a] -> h1 a (fun x -> ORemove x)
          | ["rst"; a] -> h1 a (fun x -> ORemoveSubtree x)
          | ["wr"; a; v] -> h1 a (fun x -> OWrite (x, n_of_int (int_of_string v)));
                            (match outcome_of () with Some OutUnit -> cur := { !cur with mever = int_of_string v :: !cur.mever } | _ -> ())
          | ["clear"] -> setp (Some OClear); !cur.mn := 0; Hashtbl.reset !cur.mset; cur := { !cur with mflags = "" }
          | ["reserve"; k] -> setp (Some (OReserve (nat_of_int (int_of_string k))))
          | ["fork"] | ["forkfrom"] -> alt := Some { (mcopy !cur) with mdrops = []; mever = stored !cur.mar }; (if !fresh then pending := Some ("fork", None, None, !cur.mar)); fresh := false
          | ["swap"] ->
              (match !alt with
               | Some a -> let c = !cur in cur := a; alt := Some c
               | None -> ());
              pending := Some ("swap", None, None, !cur.mar); fresh := false
          | ["serde"] ->
              (match otoks with
               | "s" :: "unsupported" :: _ -> ()
               | "s" :: ts ->
                   bump "C16";
                   let expect = List.map s_tok (encode !cur.mar) in
                   if ts <> expect then report "C16" "serialized token stream differs from the derive's data-model encoding of the arena";
                   (if !fresh then pending := Some ("serde", None, None, !cur.mar)); fresh := false
               | _ -> report "C16" ("unexpected observation " ^ obs))
          | ["rend"; v; mode; chunks] ->
              let cs = if chunks = "-" then [] else List.map bytes_of_hex (List.map strip_c (String.split_on_char ',' chunks)) in
              Hashtbl.replace rend_tbl (int_of_string v, int_of_string mode) cs
          | ["qa"] -> (match p_arena obs with Some a' -> on_arena a' | None -> report "C01" ("unparsable arena dump " ^ obs))
          | ["qeq"] ->
              (match otoks, !alt with
               | ["e"; "1"], Some a -> bump "C13"; if not (arena_eqb a.mar !cur.mar) then report "C13" "== says equal, dumps differ"
               | ["e"; "0"], Some a -> bump "C13"; if arena_eqb a.mar !cur.mar then report "C13" "== says different, dumps equal"
               | _ -> ())
          | ["qr"] ->
              let flags = (match otoks with ["m"; f] -> f | _ -> "") in
              bump "C06";
              let a = !cur.mar in
              Array.iteri (fun i x ->
                if i < !(!cur.mn) && i < String.length flags then begin
                  let want = if live_b a x then '0' else '1' in
                  if flags.[i] <> want then report "C06" (Printf.sprintf "is_removed(%s) = %c, expected %c" (s_id x) flags.[i] want);
                  if i < String.length !cur.mflags && !cur.mflags.[i] = '1' && flags.[i] <> '1' then
                    report "C06" (Printf.sprintf "is_removed(%s) went back to false" (s_id x))
                end) !(!cur.mh);
              if String.length flags <> !(!cur.mn) then report "C06" "wrong number of is_removed flags";
              cur := { !cur with mflags = flags }
          | ["ql"] ->
              bump "C11";
              let a = !cur.mar in
              let c = List.length a.nodes in
              let want = String.concat " " ("l" :: string_of_int c :: (if c = 0 then "1" else "0")
                           :: List.init (c + 2) (fun k -> s_oid (spec_id_at a (nat_of_int (k + 1))))) in
              if want <> obs then report "C11" ("lookup by position: got [" ^ obs ^ "] expected [" ^ want ^ "]")
          | ["qav"; _; _] ->
              bump "C03";
              if obs = "v 0" then report "C03" "append_value(v) does not leave the arena equal to new_node(v) followed by append"
          | ["qf"] ->
              bump "C07";
              let got = List.sort compare (List.filter_map (fun t -> int_of_string_opt t) (List.tl otoks)) in
              let want = List.sort compare (List.map int_of_nat (reusable_slots !cur.mar)) in
              if got <> want then report "C07" ("slots handed out by draining allocations [" ^ obs ^ "] are not exactly the reusable removed slots")
          | ["qi"; h] ->
              (match mhandle (int_of_string h) with
               | None -> ()
               | Some x ->
                   bump "C09";
                   let a = !cur.mar in
                   let so = function Some l -> s_ids l | None -> "diverge" in
                   let tr = spec_traverse a x in
                   let want = String.concat " "
                     [ "i"; "anc=" ^ so (spec_ancestors a x); "pred=" ^ so (spec_predecessors a x);
                       "prec=" ^ so (spec_preceding a x); "foll=" ^ so (spec_following a x);
                       "ch=" ^ s_ids (spec_children a x); "rch=" ^ s_ids (List.rev (spec_children a x));
                       "desc=" ^ s_ids (spec_descendants a x); "trav=" ^ s_edges tr; "rtrav=" ^ s_edges (List.rev tr);
                       "nt=" ^ s_edges tr; "pt=" ^ s_edges (List.rev tr);
                       "n1=" ^ s_res s_oedge (next_traverse (End_ x) a); "p1=" ^ s_res s_oedge (prev_traverse (Start x) a) ] in
                   if want <> obs then begin
                     report "C09" ("traversal from " ^ s_id x ^ ": got [" ^ obs ^ "] expected [" ^ want ^ "]");
                     if String.length obs > 0 && (try ignore (Str.search_forward (Str.regexp_string "diverge") obs 0); true with Not_found -> false)
                     then report "C02" "an iterator did not finish"
                   end)
          | ["qx"; _] ->
              bump "C09"; bump "C10";
              if obs <> "y ok" && obs <> "r badhandle" then begin
                report "C09" ("clone / fold / for_each / count / last / rev of an iterator disagree with repeated next(): " ^ obs);
                report "C10" ("clone / fold / rfold / rev of a double-ended iterator disagree with repeated next()/next_back(): " ^ obs);
                report "C02" ("an iterator consumed by internal iteration or through a clone does not yield each node once: " ^ obs)
              end
          | ["qd"; h; which; pat] ->
              (match mhandle (int_of_string h) with
               | None -> ()
               | Some x ->
                   bump "C10";
                   let k = (match which with "ch" -> DChildren | "prec" -> DPreceding | _ -> DFollowing) in
                   let pulls = List.map (fun c -> c = 'f') (List.of_seq (String.to_seq pat)) in
                   (match spec_de_seq k !cur.mar x with
                    | Some s ->
                        let want = "d " ^ String.concat "," (List.map (function None -> "-" | Some y -> s_idx1 y) (de_spec s pulls)) in
                        if want <> obs then begin
                          report "C10" ("pulls " ^ pat ^ " on " ^ which ^ " of " ^ s_id x ^ ": got [" ^ obs ^ "] expected [" ^ want ^ "]");
                          report "C09" ("iterator " ^ which ^ " of " ^ s_id x ^ " does not yield exactly the documented sequence under pulls " ^ pat ^ ": got [" ^ obs ^ "] expected [" ^ want ^ "]");
                          (* more Some-results than the sequence has elements: a node is yielded twice / the iterator is not finite *)
                          let somes str = List.length (List.filter (fun t -> t <> "-" && t <> "") (String.split_on_char ',' (if String.length str > 2 then String.sub str 2 (String.length str - 2) else ""))) in
                          if somes obs > List.length s then report "C02" ("iterator " ^ which ^ " of " ^ s_id x ^ " yields more nodes than the sequence has (a node twice) under pulls " ^ pat ^ ": [" ^ obs ^ "]")
                        end
                    | None -> report "C02" "sibling walk does not end"))
          | ["qp"; h; mode] ->
              (match mhandle (int_of_string h) with
               | None -> ()
               | Some x ->
                   bump "C14";
                   let want = "p " ^ hex_of_bytes (spec_print rendering (nat_of_int (int_of_string mode)) !cur.mar x) in
                   if want <> obs then report "C14" ("pretty print of " ^ s_id x ^ " mode " ^ mode ^ ": got [" ^ obs ^ "] expected [" ^ want ^ "]"))
          | ["drops"] ->
              let l = List.filter_map int_of_string_opt (List.tl otoks) in
              bump "C08";
              List.iter (fun v -> if not (List.mem v l) then
                report "C08" (Printf.sprintf "the payload %d of a node removed by the preceding call was not dropped by that call" v)) !expect_drop;
              expect_drop := [];
              cur := { !cur with mdrops = !cur.mdrops @ l }
          | ["end"] ->
              bump "C08";
              let parts = split_on_string " ;" (String.sub obs 1 (String.length obs - 1)) in
              let ints s = List.filter_map int_of_string_opt (String.split_on_char ' ' s) in
              (match parts with
               | [c; a] ->
                   let cd = !cur.mdrops @ ints c in
                   if not (same_multiset cd !cur.mever) then
                     report "C08" (Printf.sprintf "payload drops of the current arena value are not exactly the payloads it ever held (dropped %d, held %d, duplicates: %b)"
                                     (List.length cd) (List.length !cur.mever) (not (nodup cd)));
                   (match !alt with
                    | Some s -> let ad = s.mdrops @ ints a in
                                if not (same_multiset ad s.mever) then report "C08" "payload drops of the other arena value are not exactly the payloads it ever held"
                    | None -> if ints a <> [] then report "C08" "drops reported for a non-existent arena value")
               | _ -> report "C08" ("unparsable drop line " ^ obs))
          | _ -> ());
         (* a drops line right after a removal: dropped payloads must be payloads no longer stored *)
         ()
       end
     done
   with End_of_file -> ());
  Hashtbl.iter (fun p c -> Printf.fprintf oc "STAT %s %d\n" p c) counts;
  close_in ic; close_in ib; close_out oc


(* ====================================================================================
   Macro mode (C15): cases file, one per line:
     case <i> <id|val> <k pre-existing children> <literal forest as s-expressions: (e kid kid ..) ..>
   ==================================================================================== *)
let parse_lits (s : string) : lit list =
  let n = String.length s in
  let pos = ref 0 in
  let skip () = while !pos < n && s.[!pos] = ' ' do incr pos done in
  let rec lits () : lit list =
    skip ();
    if !pos < n && s.[!pos] = '(' then begin
      incr pos; skip ();
      let st = !pos in
      while !pos < n && s.[!pos] >= '0' && s.[!pos] <= '9' do incr pos done;
      let e = int_of_string (String.sub s st (!pos - st)) in
      let ks = lits () in
      skip ();
      if !pos < n && s.[!pos] = ')' then incr pos;
      let t = L (n_of_int e, ks) in
      t :: lits ()
    end else [] in
  lits ()

let macro_mode (casesf : string) (outf : string) =
  let ic = open_in casesf and oc = open_out outf in
  (try
     while true do
       let line = String.trim (input_line ic) in
       match String.split_on_char ' ' line with
       | "case" :: i :: form :: k :: rest ->
           let lits = parse_lits (String.concat " " rest) in
           (* "<form>+<f>": the arena handed to tree! already holds f reusable free slots (f scratch nodes created and
              removed, in that order, before anything else) *)
           let (form, nfree) = (match String.split_on_char '+' form with
             | [b; f] -> (b, int_of_string f) | _ -> (form, 0)) in
           let a0 =
             let a = ref empty_arena and ids = ref [] in
             for j = 0 to nfree - 1 do
               (match new_node !dbg (n_of_int (2000 + j)) !a with (a', Ok x) -> a := a'; ids := x :: !ids | (a', _) -> a := a')
             done;
             List.iter (fun x -> match remove !dbg x !a with (a', _) -> a := a') (List.rev !ids);
             !a in
           let (a1, rootform) =
             if form = "idp" then begin
               (* the given root is anchored: top(999) -> [r(1000) with k children; 998] *)
               match new_node !dbg (n_of_int 999) a0 with
               | (a, Ok top) ->
                   (match append_value !dbg top (n_of_int 1000) a with
                    | (a, Ok r) ->
                        let a = ref (fst (append_value !dbg top (n_of_int 998) a)) in
                        for j = 0 to int_of_string k - 1 do
                          (match append_value !dbg r (n_of_int (1001 + j)) !a with (a', _) -> a := a')
                        done;
                        (!a, RootId r)
                    | (a, _) -> (a, RootValue (n_of_int 500)))
               | (a, _) -> (a, RootValue (n_of_int 500))
             end else if form = "id" then begin
               match new_node !dbg (n_of_int 1000) a0 with
               | (a, Ok r) ->
                   let a = ref a in
                   for j = 0 to int_of_string k - 1 do
                     (match append_value !dbg r (n_of_int (1001 + j)) !a with (a', _) -> a := a')
                   done;
                   (!a, RootId r)
               | (a, _) -> (a, RootValue (n_of_int 500))
             end else (a0, RootValue (n_of_int 500)) in
           let (a2, res) = tree_macro_full !dbg (n_of_int 9999) (n_of_int 501) rootform lits a1 in
           let sn (x : nid option) = match x with None -> "-" | Some y -> s_idx1 y in
           let nodes = String.concat "|" (List.map (fun nd ->
             Printf.sprintf "%s:%s:%s:%s:%s:%s"
               (match nd.data with Data v -> string_of_int (int_of_n v) | NextFree _ -> "X")
               (sn nd.parent) (sn nd.prev) (sn nd.next) (sn nd.first) (sn (node_last nd))) a2.nodes) in
           (match res with
            | Ok ((r, log), _) ->
                Printf.fprintf oc "case %s root=%s log=%s nodes=%s\n" i (s_idx1 r)
                  (String.concat "," (List.map (fun v -> string_of_int (int_of_n v)) log)) nodes
            | Panic _ -> Printf.fprintf oc "case %s panic nodes=%s\n" i nodes
            | Diverge -> Printf.fprintf oc "case %s diverge\n" i)
       | _ -> ()
     done
   with End_of_file -> ());
  close_in ic; close_out oc


(* ====================================================================================
   --emit-coq: replay the first histories of an ops file and write a Coq file in which the
   kernel itself (vm_compute inside coqc) re-evaluates [run] on the same resolved operation lists
   and checks that it reaches the arena the extracted code reached.  This cross-checks extraction
   and this driver against Coq's own evaluation of the model.
   ==================================================================================== *)
let c_nat k = string_of_int (int_of_nat k) ^ "%nat"
let c_z v = "(" ^ string_of_int (int_of_z v) ^ ")%Z"
let c_n v = string_of_int (int_of_n v) ^ "%N"
let c_id (x : nid) = Printf.sprintf "(mkId %s %s)" (c_nat x.idx) (c_z x.gen)
let c_oid = function None -> "None" | Some x -> "(Some " ^ c_id x ^ ")"
let c_onat = function None -> "None" | Some k -> "(Some " ^ c_nat k ^ ")"
let c_kind = function KAppend -> "KAppend" | KPrepend -> "KPrepend" | KAfter -> "KAfter" | KBefore -> "KBefore"
let c_op = function
  | ONew v -> "ONew " ^ c_n v
  | OAppendValue (p, v) -> Printf.sprintf "OAppendValue %s %s" (c_id p) (c_n v)
  | OInsert (k, chk, x, c) -> Printf.sprintf "OInsert %s %s %s %s" (c_kind k) (if chk then "true" else "false") (c_id x) (c_id c)
  | ODetach x -> "ODetach " ^ c_id x | ORemove x -> "ORemove " ^ c_id x | ORemoveSubtree x -> "ORemoveSubtree " ^ c_id x
  | OWrite (x, v) -> Printf.sprintf "OWrite %s %s" (c_id x) (c_n v)
  | OClear -> "OClear" | OReserve k -> "OReserve " ^ c_nat k
let c_node (nd : node) =
  Printf.sprintf "mkNode %s %s %s %s %s %s %s" (c_oid nd.parent) (c_oid nd.prev) (c_oid nd.next) (c_oid nd.first)
    (c_oid (node_last nd)) (c_z nd.stamp)
    (match nd.data with Data v -> "(Data " ^ c_n v ^ ")" | NextFree o -> "(NextFree " ^ c_onat o ^ ")")
let c_arena (a : arena) =
  Printf.sprintf "(mkArena [%s] %s %s)" (String.concat "; " (List.map c_node a.nodes)) (c_onat a.ffree) (c_onat a.lfree)

let emit_coq (opsf : string) (outf : string) (maxhist : int) =
  let ic = open_in opsf and oc = open_out outf in
  Printf.fprintf oc "(* GENERATED by runner --emit-coq: kernel re-evaluation of extracted runs *)\nFrom IT Require Import Monitor.\n";
  let n = ref 0 and acc : string list ref = ref [] and active = ref false and simple = ref true in
  let flush_hist () =
    if !active && !simple && !acc <> [] then begin
      Printf.fprintf oc "Example emit_%d : arena_eqb (ar (run %s [%s] init)) %s = true.\nProof. vm_compute. reflexivity. Qed.\n"
        !n (if !dbg then "true" else "false") (String.concat "; " (List.rev !acc)) (c_arena !cur.w.ar);
      incr n
    end in
  (try
     while !n < maxhist do
       let line = String.trim (input_line ic) in
       let toks = String.split_on_char ' ' line in
       (match toks with
        | ["hist"; _] -> flush_hist (); ignore (process line); acc := []; active := true; simple := true
        | ["fork"] | ["forkfrom"] | ["swap"] | ["serde"] -> simple := false; ignore (process line)
        | _ ->
            (* record the resolved op before executing it *)
            let o = (match toks with
              | ["new"; v] -> Some (ONew (n_of_int (int_of_string v)))
              | ["appv"; p; v] -> (match handle (int_of_string p) with Some x -> Some (OAppendValue (x, n_of_int (int_of_string v))) | None -> None)
              | [("app" | "pre" | "ia" | "ib") as k; a; b] -> (match tok_handle a, tok_handle b with Some x, Some y -> Some (OInsert (inskind_of k, false, x, y)) | _ -> None)
              | [("capp" | "cpre" | "cia" | "cib") as k; a; b] -> (match tok_handle a, tok_handle b with Some x, Some y -> Some (OInsert (inskind_of k, true, x, y)) | _ -> None)
              | ["det"; a] -> (match handle (int_of_string a) with Some x -> Some (ODetach x) | None -> None)
              | ["rem"; a] -> (match handle (int_of_string a) with Some x -> Some (ORemove x) | None -> None)
              | ["rst"; a] -> (match handle (int_of_string a) with Some x -> Some (ORemoveSubtree x) | None -> None)
              | ["wr"; a; v] -> (match handle (int_of_string a) with Some x -> Some (OWrite (x, n_of_int (int_of_string v))) | None -> None)
              | ["clear"] -> Some OClear
              | ["reserve"; k] -> Some (OReserve (nat_of_int (int_of_string k)))
              | _ -> None) in
            (match o with Some o -> acc := c_op o :: !acc | None -> ());
            if toks = ["end"] then (flush_hist (); active := false);
            ignore (process line))
     done
   with End_of_file -> flush_hist ());
  close_in ic; close_out oc

let () =
  let ops = ref "" and obs = ref "" and mon = ref "" and out = ref "" and stamps = ref "" and macro = ref "" and emit = ref "" in
  let args = Array.to_list Sys.argv in
  let rec parse = function
    | "--ops" :: f :: r -> ops := f; parse r
    | "--obs" :: f :: r -> obs := f; parse r
    | "--monitor" :: f :: r -> mon := f; parse r
    | "--out" :: f :: r -> out := f; parse r
    | "--stamps" :: f :: r -> stamps := f; parse r
    | "--macro" :: f :: r -> macro := f; parse r
    | "--emit-coq" :: f :: r -> emit := f; parse r
    | "--dbg" :: v :: r -> dbg := (v = "1"); parse r
    | _ :: r -> parse r
    | [] -> () in
  parse (List.tl args);
  if !emit <> "" then begin emit_coq !ops !emit 25; exit 0 end;
  if !macro <> "" then begin macro_mode !macro !out; exit 0 end;
  if !stamps <> "" then begin
    (* exhaustive table of the four NodeStamp functions over all i16 values (C06) *)
    let oc = open_out !stamps in
    for v = -32768 to 32767 do
      let z = z_of_int v in
      let r f = function Ok x -> f x | _ -> "p" in
      Printf.fprintf oc "%d %s %s %s %s\n" v
        (if st_is_removed z then "1" else "0")
        (r (fun x -> string_of_int (int_of_z x)) (st_as_removed !dbg z))
        (r (fun b -> if b then "1" else "0") (st_reuseable !dbg z))
        (r (fun x -> let i = string_of_int (int_of_z x) in i ^ "," ^ i) (st_reuse !dbg z))
    done;
    close_out oc; exit 0
  end;
  if !mon <> "" then begin
    if !ops = "" || !out = "" then (prerr_endline "usage: runner --ops F --monitor IMPL_OBS --out F"; exit 2);
    monitor !ops !mon !out; exit 0
  end;
  if !ops = "" || !obs = "" then (prerr_endline "usage: runner --ops F --obs F [--dbg 0|1]"; exit 2);
  let ic = open_in !ops and oc = open_out !obs in
  (try
     while true do
       let line = input_line ic in
       match process line with
       | Some s -> output_string oc s; output_char oc '\n'
       | None -> ()
     done
   with End_of_file -> ());
  close_in ic; close_out oc
